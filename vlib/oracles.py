"""Oracles shared by the checks. All independent of typelib: they only use the harness's own
spec tree, the standard library and Python's runtime semantics."""
from __future__ import annotations

import collections
import dataclasses
import datetime
import decimal
import enum
import fractions
import json
import pathlib
import re
import types
import uuid

from vlib.universe import Spec

NoneType = type(None)


def qual(cls):
    return f"{cls.__module__}.{cls.__qualname__}"


def canon(x, strict=False, _depth=0, _onpath=None):
    """Class-qualified structural rendering. Two values are `same` iff their canon is equal.

    strict=True additionally distinguishes equal-but-differently-represented values
    (Decimal exponent, datetime fold) - used for history independence."""
    if _depth > 3000:
        return ("<deep>",)
    d = _depth + 1
    t = type(x)
    if x is None:
        return None
    if t is bool or t is int or t is str:
        return (t.__name__, x)
    if t is float:
        return ("float", repr(x))
    if isinstance(x, enum.Enum):
        return ("enum", qual(t), x.name)
    if t is bytes or t is bytearray:
        return (t.__name__, bytes(x).hex())
    if isinstance(x, decimal.Decimal):
        if strict:
            return (qual(t), str(x))
        if x.is_nan():
            return (qual(t), "NaN")
        if not x.is_finite():
            return (qual(t), str(x))
        # the numeric value, exactly: trailing zeros dropped by hand (Decimal.normalize() would round to the context precision and
        #   make two different 40-digit values look alike)
        sign, digits, exp = x.as_tuple()
        digits = list(digits)
        while len(digits) > 1 and digits[-1] == 0:
            digits.pop()
            exp += 1
        if digits == [0]:
            return (qual(t), "0")
        return (qual(t), ("-" if sign else "") + "".join(map(str, digits)) + f"E{exp}")
    if isinstance(x, fractions.Fraction):
        return (qual(t), x.numerator, x.denominator)
    if isinstance(x, uuid.UUID):
        return (qual(t), x.int)
    if isinstance(x, pathlib.PurePath):
        return (qual(t), str(x))
    if isinstance(x, re.Pattern):
        return ("re.Pattern", x.pattern, x.flags)
    if isinstance(x, datetime.datetime):
        off = x.utcoffset()
        base = (qual(t), x.year, x.month, x.day, x.hour, x.minute, x.second, x.microsecond,
                None if off is None else off.total_seconds())
        return base + ((x.fold,) if strict else ())
    if isinstance(x, datetime.date):
        return (qual(t), x.year, x.month, x.day)
    if isinstance(x, datetime.time):
        off = x.utcoffset()
        base = (qual(t), x.hour, x.minute, x.second, x.microsecond, None if off is None else off.total_seconds())
        return base + ((x.fold,) if strict else ())
    if isinstance(x, datetime.timedelta):
        return (qual(t), x.days, x.seconds, x.microseconds)
    if isinstance(x, (int, float, str)):  # subclasses of primitives
        return (qual(t), repr(x))
    _onpath = set() if _onpath is None else _onpath
    if id(x) in _onpath:
        return ("<cycle>",)
    _onpath = _onpath | {id(x)}
    if dataclasses.is_dataclass(x) and not isinstance(x, type):
        out = []
        for f in dataclasses.fields(x):
            try:
                out.append((f.name, canon(getattr(x, f.name), strict, d, _onpath)))
            except AttributeError:
                out.append((f.name, ("<unset>",)))
        return ("dc", qual(t), tuple(out))
    if isinstance(x, tuple) and hasattr(t, "_fields"):
        return ("nt", qual(t), tuple((n, canon(v, strict, d, _onpath)) for n, v in zip(t._fields, x)))
    if isinstance(x, dict):
        items = [(canon(k, strict, d, _onpath), canon(v, strict, d, _onpath)) for k, v in x.items()]
        if t is not collections.OrderedDict:
            items.sort(key=repr)
        return (qual(t) if t is not dict else "dict", tuple(items))
    if isinstance(x, (list, tuple, collections.deque)):
        return (t.__name__ if t in (list, tuple) else qual(t), tuple(canon(v, strict, d, _onpath) for v in x))
    if isinstance(x, (set, frozenset)):
        return (t.__name__, tuple(sorted((canon(v, strict, d, _onpath) for v in x), key=repr)))
    if isinstance(x, types.GeneratorType):
        return ("<generator>",)
    # plain / slots classes: public attributes
    names = []
    if hasattr(x, "__dict__"):
        names = [n for n in vars(x) if not n.startswith("_")]
    else:
        for c in t.__mro__:
            names.extend(n for n in getattr(c, "__slots__", ()) if not n.startswith("_"))
    if names:
        out = []
        for n in names:
            try:
                out.append((n, canon(getattr(x, n), strict, d, _onpath)))
            except AttributeError:
                out.append((n, ("<unset>",)))
        return ("obj", qual(t), tuple(out))
    return ("opaque", qual(t))  # no repr: default reprs carry addresses, which differ between processes


def same(a, b, strict=False):
    try:
        return canon(a, strict) == canon(b, strict)
    except RecursionError:
        return a == b and type(a) is type(b)


def short(x, n=300):
    try:
        r = repr(x)
    except Exception as e:  # pragma: no cover
        r = f"<unreprable {type(x).__name__}: {e}>"
    return r if len(r) <= n else r[: n - 3] + "..."


# ----------------------------------------------------------------------------------------
# structural conformance (C03 oracle)

def conforms(spec: Spec, r, _depth=0, closed=False) -> tuple[bool, str]:
    """(ok, path-of-first-failure). Python's own isinstance semantics at scalar positions."""
    if _depth > 600:
        return True, ""
    d = _depth + 1
    k = spec.kind
    if k == "any":
        return True, ""
    if k in ("wrap",):
        return conforms(spec.kids[0], r, d, closed)
    if k == "rec":
        return conforms(spec.info["target"](), r, d, closed)
    if k == "scalar":
        cls = spec.info["cls"]
        if spec.info["name"] == "float":
            ok = isinstance(r, float)
        elif spec.info["name"] == "Path":
            ok = isinstance(r, pathlib.Path)
        else:
            ok = isinstance(r, cls)
        if closed and ok:
            # ownership: the member's own class exactly (bool is not the int member's value, datetime not the date
            # member's, a concrete PosixPath not the PurePosixPath member's)
            ok = type(r) is (type(pathlib.Path()) if spec.info["name"] == "Path" else cls) or spec.info["name"] == "Pattern"
        return ok, "" if ok else f"<{type(r).__name__} is not {spec.info['name']}>"
    if k == "literal":
        ok = any(type(m) is type(r) and m == r for m in spec.info["members"])
        return ok, "" if ok else f"<{r!r} not a declared literal member>"
    if k == "enum":
        ok = isinstance(r, spec.t)
        return ok, "" if ok else f"<{type(r).__name__} is not {spec.info['name']}>"
    if k == "coll":
        cls = spec.info["cls"]
        if not isinstance(r, cls) or (closed and type(r) is not cls):
            return False, f"<{type(r).__name__} is not {cls.__name__}>"
        for i, e in enumerate(r):
            ok, p = conforms(spec.kids[0], e, d, closed)
            if not ok:
                return False, f"[{i}]{p}"
        return True, ""
    if k == "fixed":
        if not isinstance(r, tuple):
            return False, f"<{type(r).__name__} is not tuple>"
        if len(r) != len(spec.kids):
            return False, f"<arity {len(r)} != {len(spec.kids)}>"
        for i, (c, e) in enumerate(zip(spec.kids, r)):
            ok, p = conforms(c, e, d, closed)
            if not ok:
                return False, f"[{i}]{p}"
        return True, ""
    if k == "mapping":
        cls = spec.info["cls"]
        if not isinstance(r, cls) or (closed and type(r) is not cls):
            return False, f"<{type(r).__name__} is not {cls.__name__}>"
        for kk, vv in r.items():
            ok, p = conforms(spec.kids[0], kk, d, closed)
            if not ok:
                return False, f".key({short(kk, 40)}){p}"
            ok, p = conforms(spec.kids[1], vv, d, closed)
            if not ok:
                return False, f"[{short(kk, 40)}]{p}"
        return True, ""
    if k == "union":
        if r is None and spec.info["none_pos"] is not None:
            return True, ""
        fails = []
        for c in spec.kids:
            ok, p = conforms(c, r, d, closed)
            if ok:
                return True, ""
            fails.append(p)
        return False, "<no union member conforms: " + " | ".join(fails)[:200] + ">"
    if k == "struct":
        fl = spec.info["flavour"]
        if fl.startswith("typeddict"):
            if not isinstance(r, dict):
                return False, f"<{type(r).__name__} is not dict (TypedDict)>"
            if closed and (type(r) is not dict or not set(r) <= {f[0] for f in spec.info["fields"]}):
                return False, "<not a closed plain dict of the declared keys>"
            for req in spec.info["required"]:
                if req not in r:
                    return False, f"<required key {req!r} missing>"
            for fname, fspec, _ in spec.info["fields"]:
                if fname in r:
                    ok, p = conforms(fspec, r[fname], d, closed)
                    if not ok:
                        return False, f"[{fname!r}]{p}"
            return True, ""
        if not isinstance(r, spec.t) or (closed and type(r) is not spec.t):
            return False, f"<{type(r).__name__} is not {spec.info['name']}>"
        for fname, fspec, _ in spec.info["fields"]:
            try:
                v = getattr(r, fname)
            except AttributeError:
                continue
            ok, p = conforms(fspec, v, d, closed)
            if not ok:
                return False, f".{fname}{p}"
        return True, ""
    raise AssertionError(k)


# ----------------------------------------------------------------------------------------
# JSON plainness (C06 oracle)

_PRIMS = (NoneType, bool, int, float, str)


def json_plain(m, path="$", _depth=0, _onpath=None):
    """(ok, why). Exact builtin classes only; dict keys primitive; acyclic."""
    t = type(m)
    if t in _PRIMS:
        return True, ""
    if _depth > 800:
        return True, ""
    _onpath = set() if _onpath is None else _onpath
    if id(m) in _onpath:
        return False, f"{path}: container contains itself (cyclic output)"
    if t is list:
        _onpath.add(id(m))
        for i, e in enumerate(m):
            ok, why = json_plain(e, f"{path}[{i}]", _depth + 1, _onpath)
            if not ok:
                return ok, why
        _onpath.discard(id(m))
        return True, ""
    if t is dict:
        _onpath.add(id(m))
        for k, v in m.items():
            if type(k) not in _PRIMS:
                return False, f"{path}: key {short(k, 60)} of class {qual(type(k))}"
            ok, why = json_plain(v, f"{path}[{short(k, 30)}]", _depth + 1, _onpath)
            if not ok:
                return ok, why
        _onpath.discard(id(m))
        return True, ""
    return False, f"{path}: {short(m, 60)} of class {qual(t)}"


def json_accepts(m):
    try:
        json.dumps(m, allow_nan=False)
        return True, ""
    except (TypeError, ValueError) as e:
        return False, f"{type(e).__name__}: {e}"
    except RecursionError:
        return True, "recursion"


def mutable_ids(x, acc=None, _depth=0):
    """ids of mutable containers reachable from x."""
    acc = {} if acc is None else acc
    if _depth > 300 or id(x) in acc:
        return acc
    if isinstance(x, (list, dict, set, bytearray, collections.deque)):
        acc[id(x)] = x
    if isinstance(x, dict):
        for k, v in x.items():
            mutable_ids(k, acc, _depth + 1)
            mutable_ids(v, acc, _depth + 1)
    elif isinstance(x, (list, tuple, set, frozenset, collections.deque)):
        for v in x:
            mutable_ids(v, acc, _depth + 1)
    elif dataclasses.is_dataclass(x) and not isinstance(x, type):
        for f in dataclasses.fields(x):
            mutable_ids(getattr(x, f.name, None), acc, _depth + 1)
    elif hasattr(x, "__dict__") and not isinstance(x, (type, types.ModuleType, types.FunctionType)) and type(x).__module__.startswith("vgen_"):
        for v in vars(x).values():
            mutable_ids(v, acc, _depth + 1)
    return acc


# ----------------------------------------------------------------------------------------
# strict ISO-8601 duration reader (C04 independent reader)

_DUR = re.compile(
    r"^(?P<sign>[-+]?)P(?:(?P<Y>\d+)Y)?(?:(?P<Mo>\d+)M)?(?:(?P<W>\d+)W)?(?:(?P<D>\d+)D)?"
    r"(?:T(?:(?P<H>\d+)H)?(?:(?P<Mi>\d+)M)?(?:(?P<S>\d+)(?:[.,](?P<f>\d{1,9}))?S)?)?$"
)


def read_iso_duration(s: str) -> datetime.timedelta:
    """Strict reader. Raises ValueError on anything that is not well-formed ISO-8601
    (negative components, empty designators) or that uses calendar components (Y/M),
    whose length in seconds is ambiguous."""
    m = _DUR.match(s)
    if not m or s in ("P", "PT", "-P", "+P") or s.endswith("T"):
        raise ValueError(f"not a well-formed ISO-8601 duration: {s!r}")
    g = m.groupdict()
    if g["Y"] or g["Mo"]:
        raise ValueError(f"calendar components are ambiguous: {s!r}")
    frac = g["f"] or ""
    us = int((frac + "000000")[:6]) if frac else 0
    if frac and len(frac) > 6 and int(frac[6:]) != 0:
        raise ValueError("sub-microsecond precision")
    td = datetime.timedelta(
        weeks=int(g["W"] or 0), days=int(g["D"] or 0), hours=int(g["H"] or 0), minutes=int(g["Mi"] or 0),
        seconds=int(g["S"] or 0), microseconds=us,
    )
    return -td if g["sign"] == "-" else td


# ----------------------------------------------------------------------------------------
# spec-guided localisation of round-trip differences (C01 / C13)

def rt_diffs(spec, v, u, path="$", out=None, _depth=0, union_hook=None):
    """Minimal differing positions between an original `v` and a round-tripped `u`.

    Descends through containers/structs while the *shape* matches; stops at union nodes
    (the caller applies the union rule there) and at the first mismatch of shape/class.
    Each entry: (path, spec-at-position, original, observed)."""
    out = [] if out is None else out
    if len(out) >= 8 or _depth > 500:
        return out
    if same(v, u):
        return out
    d = _depth + 1
    k = spec.kind
    if k == "wrap":
        return rt_diffs(spec.kids[0], v, u, path, out, d, union_hook)
    if k == "rec":
        return rt_diffs(spec.info["target"](), v, u, path, out, d, union_hook)
    if k == "union":
        # descend only when the caller established that the union dispatched to the value's own member on
        # both sides (then the difference lies inside that member)
        c = union_hook(spec, v, u) if union_hook is not None and v is not None and u is not None else None
        if c is not None:
            n = len(out)
            rt_diffs(c, v, u, path, out, d, union_hook)
            if len(out) > n:
                return out
        out.append((path, spec, v, u))
        return out
    if type(v) is not type(u):
        out.append((path, spec, v, u))
        return out
    if k == "coll" and spec.info["cls"] in (list, tuple, collections.deque):
        if len(v) != len(u):
            out.append((path, spec, v, u))
            return out
        for i, (a, b) in enumerate(zip(v, u)):
            rt_diffs(spec.kids[0], a, b, f"{path}[{i}]", out, d, union_hook)
        return out
    if k == "fixed":
        if len(v) != len(u):
            out.append((path, spec, v, u))
            return out
        for i, (c, a, b) in enumerate(zip(spec.kids, v, u)):
            rt_diffs(c, a, b, f"{path}[{i}]", out, d, union_hook)
        return out
    if k == "mapping":
        if len(v) != len(u):
            out.append((path, spec, v, u))
            return out
        ck = {repr(canon(kk)): kk for kk in u}
        for kk, vv in v.items():
            r = repr(canon(kk))
            if r not in ck:
                out.append((f"{path}.keys", spec.kids[0], kk, "<missing; got keys " + short(list(u)[:4], 120) + ">"))
                return out
            rt_diffs(spec.kids[1], vv, u[ck[r]], f"{path}[{short(kk, 30)}]", out, d, union_hook)
        return out
    if k == "struct":
        fl = spec.info["flavour"]
        for fname, fspec, _ in spec.info["fields"]:
            if fl.startswith("typeddict"):
                if (fname in v) != (fname in u):
                    out.append((f"{path}[{fname!r}]", fspec, v.get(fname, "<absent>"), u.get(fname, "<absent>")))
                    continue
                if fname in v:
                    rt_diffs(fspec, v[fname], u[fname], f"{path}[{fname!r}]", out, d, union_hook)
            else:
                a, b = getattr(v, fname, "<unset>"), getattr(u, fname, "<unset>")
                rt_diffs(fspec, a, b, f"{path}.{fname}", out, d, union_hook)
        if not out:
            out.append((path, spec, v, u))
        return out
    # scalars, literals, enums, sets: the position itself
    out.append((path, spec, v, u))
    return out


def describe(spec):
    k = spec.kind
    if k == "scalar":
        return spec.info["name"]
    if k == "coll":
        return "coll:" + spec.info["ctor"]
    if k == "mapping":
        return "mapping:" + spec.info["ctor"]
    if k == "struct":
        return "struct:" + spec.info["flavour"]
    if k == "enum":
        return "enum:" + spec.info["flavour"]
    if k == "wrap":
        return "wrap:" + spec.info["w"]
    return k


# ----------------------------------------------------------------------------------------
# harness-side decomposition of a valid value along its spec; failure localisation

def children(spec, v, path="$"):
    """Direct member positions of a *valid* value v of spec: [(path, subspec, subvalue)]."""
    k = spec.kind
    if k == "wrap":
        return children(spec.kids[0], v, path)
    if k == "rec":
        return children(spec.info["target"](), v, path)
    out = []
    if k == "coll":
        for i, e in enumerate(v):
            out.append((f"{path}[{i}]", spec.kids[0], e))
    elif k == "fixed":
        for i, (c, e) in enumerate(zip(spec.kids, v)):
            out.append((f"{path}[{i}]", c, e))
    elif k == "mapping":
        for kk, vv in v.items():
            out.append((f"{path}.key", spec.kids[0], kk))
            out.append((f"{path}[{short(kk, 24)}]", spec.kids[1], vv))
    elif k == "union":
        if v is None and spec.info["none_pos"] is not None:
            return out
        for c in spec.kids:
            if conforms(c, v, closed=True)[0]:
                out.append((path + "|" + describe(c), c, v))
                break
    elif k == "struct":
        td = spec.info["flavour"].startswith("typeddict")
        for fname, fspec, _ in spec.info["fields"]:
            if td:
                if fname in v:
                    out.append((f"{path}[{fname!r}]", fspec, v[fname]))
            elif hasattr(v, fname):
                out.append((f"{path}.{fname}", fspec, getattr(v, fname)))
    return out


def localize(spec, v, fails, path="$", _depth=0):
    """Deepest position at which `fails(subspec, subvalue)` still holds (greedy descent).
    Returns (path, subspec, subvalue)."""
    if _depth < 200:
        for p, c, e in children(spec, v, path):
            try:
                bad = fails(c, e)
            except RecursionError:
                bad = False
            if bad:
                return localize(c, e, fails, p, _depth + 1)
    s = spec
    while s.kind in ("wrap", "rec"):
        s = s.kids[0] if s.kind == "wrap" else s.info["target"]()
    return path, s, v
