"""Shared workload plumbing: per-case RNG, program synthesis, typelib cache control."""
from __future__ import annotations

import functools
import gc
import random
import sys
import typing
import warnings

from vlib import universe as U


def case_rng(sh, i, salt=""):
    return random.Random(f"{sh.prop}/{sh.seed}/{sh.shard}/{i}/{salt}")


def make_program(rng, opts, nroots=3, depth=None):
    prog = U.Program(rng)
    gen = U.Gen(prog, rng, opts)
    roots = [gen.type(opts.depth if depth is None else depth) for _ in range(nroots)]
    prog.build()
    for r in roots:
        U.reconcile(r)
    return prog, gen, roots


def typelib_caches():
    """Every functools cache living in typelib modules (found by scanning, not by name)."""
    out = []
    for name, mod in list(sys.modules.items()):
        if not (name == "typelib" or name.startswith("typelib.")) or mod is None:
            continue
        for attr, obj in list(vars(mod).items()):
            if hasattr(obj, "cache_clear") and hasattr(obj, "cache_info"):
                out.append((f"{name}.{attr}", obj))
    return out


def clear_typelib_caches(also_typing=False):
    for _, c in typelib_caches():
        c.cache_clear()
    if also_typing:
        for f in getattr(typing, "_cleanups", []):
            f()
    gc.collect()


class quiet:
    def __enter__(self):
        self._cm = warnings.catch_warnings(record=True)
        self.log = self._cm.__enter__()
        warnings.simplefilter("always")
        return self.log

    def __exit__(self, *a):
        return self._cm.__exit__(*a)


def per_shard(total, nshards, shard):
    base, extra = divmod(total, nshards)
    return base + (1 if shard < extra else 0)
