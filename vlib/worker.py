"""One shard of one property's workload. Writes a JSON result file."""
from __future__ import annotations

import hashlib
import importlib
import json
import os
import random
import sys
import time
import traceback


class Shard:
    def __init__(self, prop, tier, seed, shard, nshards, only=None):
        self.prop, self.tier, self.seed, self.shard, self.nshards, self.only = prop, tier, seed, shard, nshards, only
        self.rng = random.Random(f"{prop}/{seed}/{shard}")
        self.evaluations = 0
        self.keys: set[str] = set()
        self.counters: dict[str, int] = {}
        self.sets: dict[str, set] = {}
        self.samples: list = []
        self.violations: list[dict] = []
        self.canaries: dict[str, bool] = {}
        self.inconclusive: list[str] = []
        self.case = -1
        self.t0 = time.time()

    # -- bookkeeping -------------------------------------------------------------------
    def begin_case(self, i):
        """Returns False when this case must be skipped (replay of another case)."""
        self.case = i
        return self.only is None or self.only == i

    def run_cases(self, n, fn, timeout_s=None):
        """Run fn(i) for i in range(n) (or only the replayed case) under a per-case wall-clock guard. A case that
        exceeds the guard is recorded as inconclusive (never as a verdict) and the shard carries on."""
        import signal

        timeout_s = timeout_s or int(os.environ.get("VERIF_CASE_TIMEOUT", "120"))

        class CaseTimeout(BaseException):
            pass

        def on_alarm(signum, frame):
            raise CaseTimeout()

        signal.signal(signal.SIGALRM, on_alarm)
        for i in range(n):
            if not self.begin_case(i):
                continue
            signal.alarm(timeout_s)
            try:
                fn(i)
            except CaseTimeout:
                self.count("case_timeouts")
                if len(self.inconclusive) < 5:
                    self.inconclusive.append(f"case {i} exceeded the {timeout_s}s wall-clock guard")
            finally:
                signal.alarm(0)

    def eval(self, key=None, n=1):
        self.evaluations += n
        if key is not None:
            self.keys.add(hashlib.blake2b(str(key).encode("utf8", "replace"), digest_size=8).hexdigest())

    def count(self, name, n=1):
        self.counters[name] = self.counters.get(name, 0) + n

    def see(self, name, item):
        s = self.sets.setdefault(name, set())
        if len(s) < 5000:
            s.add(str(item)[:200])

    def sample(self, obj, cap=6):
        if len(self.samples) < cap:
            self.samples.append(obj)

    def violation(self, kind, **rec):
        self.count("violations_raw")
        if len(self.violations) < 400:
            rec = {k: (v if isinstance(v, (int, float, bool, type(None), list, dict)) else str(v)[:2000]) for k, v in rec.items()}
            rec.update(kind=kind, shard=self.shard, case=self.case)
            self.violations.append(rec)

    def canary(self, name, fired):
        self.canaries[name] = bool(fired) and self.canaries.get(name, True)

    def dump(self, path):
        for modname in ("vlib.universe", "vlib.topo"):
            for k, n in (getattr(sys.modules.get(modname), "STYLE_COUNTS", None) or {}).items():
                if n:
                    self.counters[k] = self.counters.get(k, 0) + n
        with open(path, "w") as f:
            json.dump(
                {
                    "evaluations": self.evaluations,
                    "keys": sorted(self.keys),
                    "counters": self.counters,
                    "sets": {k: sorted(v) for k, v in self.sets.items()},
                    "samples": self.samples,
                    "violations": self.violations,
                    "canaries": self.canaries,
                    "inconclusive": self.inconclusive,
                    "wall_s": time.time() - self.t0,
                },
                f,
                default=str,
            )


def main():
    prop, tier, seed, shard, nshards, out = sys.argv[1:7]
    only = int(sys.argv[7]) if len(sys.argv) > 7 else None
    repo = os.environ.get("VERIF_REPO", "/repo")
    import typelib

    want = os.path.realpath(os.path.join(repo, "src", "typelib"))
    got = os.path.realpath(os.path.dirname(typelib.__file__))
    if want != got:
        print(f"typelib imported from {got}, expected {want}")
        sys.exit(3)
    sys.setrecursionlimit(10000)
    sh = Shard(prop, tier, int(seed), int(shard), int(nshards), only)
    mod = importlib.import_module(f"checks.{prop.lower()}")
    try:
        if only is None:
            mod.canaries(sh)
        mod.run_shard(sh)
    except BaseException:
        sh.inconclusive.append("worker crashed: " + traceback.format_exc()[-1500:])
    sh.dump(out)


if __name__ == "__main__":
    main()
