"""The supported type universe U (DESIGN.md §3): a grammar-driven generator of *programs*
(module source text defining classes/aliases) and *type specs* (a tree the harness owns,
with the source expression and the live object), plus boundary-biased valid values.

Nothing in this module calls into typelib: the spec tree is the harness's own knowledge
of what a type means, which is what makes the oracles independent.
"""
from __future__ import annotations

import collections
import dataclasses
import datetime
import decimal
import enum
import fractions
import pathlib
import re
import struct as _struct
import sys
import types
import typing
import uuid

PRELUDE = """\
import typing, collections, collections.abc, dataclasses, datetime, decimal, enum
import fractions, pathlib, re, uuid, typing_extensions
import typelib
"""

CALLERS = """\
def _call1(fn, *a, **k):
    return fn(*a, **k)
def _call2(fn, *a, **k):
    return _call1(fn, *a, **k)
def _call3(fn, *a, **k):
    return _call2(fn, *a, **k)
def _call4(fn, *a, **k):
    return _call3(fn, *a, **k)
def _call5(fn, *a, **k):
    return _call4(fn, *a, **k)
def _call6(fn, *a, **k):
    return _call5(fn, *a, **k)
"""

_PROG_COUNTER = [0]


class Spec:
    __slots__ = ("kind", "src", "kids", "info", "t", "prog")

    def __init__(self, kind, src, kids=(), prog=None, **info):
        self.kind = kind
        self.src = src
        self.kids = list(kids)
        self.info = info
        self.t = None
        self.prog = prog

    def __repr__(self):
        return f"<Spec {self.kind} {self.src}>"

    # resolve through wrappers / recursion references
    def peel(self):
        s = self
        while True:
            if s.kind == "wrap":
                s = s.kids[0]
            elif s.kind == "rec":
                s = s.info["target"]()
            else:
                return s

    def walk(self, seen=None):
        seen = set() if seen is None else seen
        if id(self) in seen:
            return
        seen.add(id(self))
        yield self
        for k in self.kids:
            yield from k.walk(seen)
        if self.kind == "rec":
            yield from self.info["target"]().walk(seen)


# how many generated modules ran under each annotation style (the worker adds these to the shard's monitor counters)
STYLE_COUNTS = {"modules_postponed_annotations": 0, "modules_evaluated_annotations": 0}


class Program:
    """A synthesised module. Definitions are appended as generated; build() execs them."""

    def __init__(self, rng, future=None, name=None):
        _PROG_COUNTER[0] += 1
        self.rng = rng
        self.name = name or f"vgen_{_PROG_COUNTER[0]}_{rng.randrange(16**6):06x}"
        self.future = rng.random() < 0.35 if future is None else future
        self.lines: list[str] = []
        self.n = 0
        self.specs: list[Spec] = []
        self.module = None
        self.imports: list[Program] = []

    def fresh(self, prefix):
        self.n += 1
        return f"{prefix}{self.n}_{self.name[-6:]}"

    def emit(self, text):
        self.lines.append(text)

    def spec(self, kind, src, kids=(), **info):
        s = Spec(kind, src, kids, prog=self, **info)
        self.specs.append(s)
        return s

    @property
    def source(self):
        head = "from __future__ import annotations\n" if self.future else ""
        imps = "".join(f"import {p.name}\n" for p in self.imports)
        return head + PRELUDE + imps + CALLERS + "\n".join(self.lines) + "\n"

    def build(self):
        for p in self.imports:
            if p.module is None:
                p.build()
        mod = types.ModuleType(self.name)
        mod.__file__ = f"/verif/out/generated/{self.name}.py"
        sys.modules[self.name] = mod
        src = self.source
        import linecache

        linecache.cache[mod.__file__] = (len(src), None, src.splitlines(True), mod.__file__)
        exec(compile(src, mod.__file__, "exec", dont_inherit=True), mod.__dict__)
        STYLE_COUNTS["modules_postponed_annotations" if self.future else "modules_evaluated_annotations"] += 1
        self.module = mod
        for s in self.specs:
            if s.t is None:
                s.t = eval(s.src, mod.__dict__)
            elif s.t == "<rec-edge>":
                s.t = eval(s.info["eval_src"], mod.__dict__)
            elif s.t == "<rec>":
                s.t = eval(s.info["name"], mod.__dict__)
        return mod

    def ev(self, src):
        return eval(src, self.module.__dict__)

    def run(self, src):
        """Exec more source in the module, under the module's own annotation semantics (never the harness's __future__ flags)."""
        import __future__

        flags = __future__.annotations.compiler_flag if self.future else 0
        exec(compile(src, self.module.__file__, "exec", flags=flags, dont_inherit=True), self.module.__dict__)

    def drop(self):
        sys.modules.pop(self.name, None)


# ----------------------------------------------------------------------------------------
# scalar value pools

STR_POOL = [
    "", "a", "ab", "hello world", "1", "1.0", "-7", "null", "None", "true", "True", "false", "[1]", '{"a":1}',
    "1,2", "2020-01-01", "PT1S", "12:30:00", "é", "日本語", "\x00\x1f", "a\nb", " x ", "{", "[", "()", "0x10", "1e5",
    "nan", "inf", "Infinity", "1_000", "'q'", '"q"', "\\", "x" * 300, "1/2", "P1D", "2020-01-01T00:00:00+00:00",
]
INT_POOL = [0, 1, -1, 2, 7, 255, -128, 2**31 - 1, -(2**31), 2**31, 2**53, 2**53 + 1, 2**63 - 1, -(2**63)]
BIGINT_POOL = [2**63, 2**64, -(2**64), 10**30, -(10**100), 10**400 + 7, -(10**3999)]
FLOAT_POOL = [0.0, -0.0, 1.0, -1.0, 1.5, -2.25, 0.1, 1e22, 1e-7, 5e-324, 1e-320, 1.7976931348623157e308,
              -1.7976931348623157e308, 3.0, 123456.789, 2.2250738585072014e-308]
DEC_POOL = ["0", "-0", "1", "1.0", "1.00", "-1.50", "1E+400", "-1.5E-400", "123456789.123456789", "0.000001",
            "1E+2", "9" * 40, "0E-10", "3.14"]
PATTERN_POOL = ["a+", "^x$", "[0-9]{2}", "", "1", "(?:a|b)", "\\d+\\s*", "null", "[1]"]
PATH_POOL = ["a/b", "/abs/x", "1", "None", ".", "rel/p.txt", "x y/z", "null", "[1]", "1.5", "true", "a,b", "~/data/f.txt", "~", "~nobody-such-user/x"]
WINPATH_POOL = ["C:/x/y", "a\\b", "1", "None", "\\\\srv\\share\\f", "true"]

UTC = datetime.timezone.utc


def _tz(rng):
    r = rng.random()
    if r < 0.2:
        return UTC
    if r < 0.3:
        return datetime.timezone(datetime.timedelta(minutes=rng.choice([-1439, 1439, 1, -1, 330, -570, 765])))
    return datetime.timezone(datetime.timedelta(minutes=rng.randrange(-1439, 1440)))


def gen_int(rng, big=True):
    r = rng.random()
    if r < 0.45:
        return rng.choice(INT_POOL)
    if r < 0.55 and big:
        return rng.choice(BIGINT_POOL)
    if r < 0.8:
        return rng.randrange(-1000, 1000)
    return rng.randrange(-(2**63), 2**63)


def gen_float(rng):
    r = rng.random()
    if r < 0.5:
        return rng.choice(FLOAT_POOL)
    if r < 0.7:
        return rng.uniform(-1e6, 1e6)
    while True:
        f = _struct.unpack("<d", rng.getrandbits(64).to_bytes(8, "little"))[0]
        if f == f and f not in (float("inf"), float("-inf")):
            return f


def gen_str(rng):
    r = rng.random()
    if r < 0.6:
        return rng.choice(STR_POOL)
    n = rng.choice([1, 2, 2, 3, 5, 12])
    alphabet = "ab01 ,:[]{}\"'-.eE/TZé☃\t"
    return "".join(rng.choice(alphabet) for _ in range(n))


def gen_decimal(rng):
    if rng.random() < 0.6:
        return decimal.Decimal(rng.choice(DEC_POOL))
    sign = rng.choice(["", "-"])
    digits = str(rng.randrange(10 ** rng.randrange(1, 25)))
    exp = rng.randrange(-400, 401)
    return decimal.Decimal(f"{sign}{digits}E{exp}")


def gen_fraction(rng):
    if rng.random() < 0.3:
        return fractions.Fraction(rng.choice([0, 1, -1, 5]), 1)
    if rng.random() < 0.6:
        return fractions.Fraction(rng.randrange(-10**6, 10**6), rng.randrange(1, 10**6))
    # numerators and denominators of any size (the text form "n/d" carries them exactly)
    big = lambda: rng.choice([10**6 + 1, 10**9 + 7, 10**12 + 1, 2**64 + 1, 3**41, rng.randrange(1, 10**30)])  # noqa: E731
    return fractions.Fraction(rng.choice([1, -1]) * rng.choice([1, 7, big()]), big())


def gen_uuid(rng):
    r = rng.random()
    if r < 0.1:
        return uuid.UUID(int=0)
    if r < 0.2:
        return uuid.UUID(int=2**128 - 1)
    if r < 0.3:
        return uuid.UUID(int=rng.randrange(1, 1000))
    return uuid.UUID(int=rng.getrandbits(128))


def gen_date(rng):
    r = rng.random()
    if r < 0.3:
        return rng.choice([datetime.date.min, datetime.date.max, datetime.date(1970, 1, 1), datetime.date(2020, 2, 29),
                           datetime.date(1969, 12, 31), datetime.date(999, 12, 31), datetime.date(1000, 1, 1)])
    return datetime.date.fromordinal(rng.randrange(1, datetime.date.max.toordinal() + 1))


def gen_datetime(rng):
    tz = _tz(rng)
    r = rng.random()
    if r < 0.15:
        # extremes, kept inside year 1..9999 after the offset
        base = rng.choice([datetime.datetime(1, 1, 2, 0, 0, 0), datetime.datetime(9999, 12, 30, 23, 59, 59, 999999),
                           datetime.datetime(1970, 1, 1), datetime.datetime(1969, 12, 31, 23, 59, 59, 999999)])
        return base.replace(tzinfo=tz)
    d = datetime.date.fromordinal(rng.randrange(2, datetime.date.max.toordinal() - 1))
    us = rng.choice([0, 0, 1, 999999, 500000, rng.randrange(1000000)])
    return datetime.datetime(d.year, d.month, d.day, rng.randrange(24), rng.randrange(60), rng.randrange(60), us,
                             tzinfo=tz, fold=rng.choice([0, 0, 0, 1]))


def gen_time(rng):
    tz = _tz(rng)
    r = rng.random()
    if r < 0.15:
        h, m, s, us = rng.choice([(0, 0, 0, 0), (23, 59, 59, 999999), (12, 0, 0, 0), (0, 0, 0, 1)])
    else:
        h, m, s = rng.randrange(24), rng.randrange(60), rng.randrange(60)
        us = rng.choice([0, 0, 1, 999999, rng.randrange(1000000)])
    return datetime.time(h, m, s, us, tzinfo=tz, fold=rng.choice([0, 0, 0, 1]))


TD_POOL = [
    datetime.timedelta(0), datetime.timedelta(seconds=1), datetime.timedelta(days=7), datetime.timedelta(days=8, seconds=3),
    datetime.timedelta(days=14), datetime.timedelta(days=1), datetime.timedelta(seconds=59, microseconds=999999),
    datetime.timedelta(microseconds=1), datetime.timedelta(days=-1, seconds=3), datetime.timedelta(seconds=-1),
    datetime.timedelta(days=999999999), datetime.timedelta(days=-999999999), datetime.timedelta(hours=1),
    datetime.timedelta(days=365), datetime.timedelta(days=30), datetime.timedelta(days=400, hours=5, minutes=6, seconds=7, microseconds=8),
    datetime.timedelta(microseconds=-1), datetime.timedelta(days=6, hours=23, minutes=59, seconds=59),
    datetime.timedelta(days=999999999, hours=23, minutes=59, seconds=59, microseconds=999999),
]


def gen_timedelta(rng):
    r = rng.random()
    if r < 0.5:
        return rng.choice(TD_POOL)
    if r < 0.65:
        # every component independently zero or not: whole weeks / days / hours / minutes / seconds with or without a sub-second part
        z = lambda hi: rng.choice([0, 0, rng.randrange(1, hi)])  # noqa: E731
        return datetime.timedelta(days=rng.choice([0, 7, -7, 14, 364, -21, z(400), -z(400)]), hours=z(24), minutes=z(60), seconds=z(60),
                                  microseconds=rng.choice([0, 1, 500000, 999999, rng.randrange(10**6)]))
    if r < 0.8:
        return datetime.timedelta(days=rng.randrange(-1000, 1000), seconds=rng.randrange(86400), microseconds=rng.choice([0, rng.randrange(10**6)]))
    return datetime.timedelta(days=rng.randrange(-999999999, 999999999), seconds=rng.randrange(86400), microseconds=rng.randrange(10**6))


SCALARS = {
    # name: (src, class, generator, hashable, json_key_ok)
    "int": ("int", int, gen_int),
    "bool": ("bool", bool, lambda r: r.random() < 0.5),
    "float": ("float", float, gen_float),
    "str": ("str", str, gen_str),
    "Decimal": ("decimal.Decimal", decimal.Decimal, gen_decimal),
    "Fraction": ("fractions.Fraction", fractions.Fraction, gen_fraction),
    "UUID": ("uuid.UUID", uuid.UUID, gen_uuid),
    "PurePosixPath": ("pathlib.PurePosixPath", pathlib.PurePosixPath, lambda r: pathlib.PurePosixPath(r.choice(PATH_POOL))),
    "PureWindowsPath": ("pathlib.PureWindowsPath", pathlib.PureWindowsPath, lambda r: pathlib.PureWindowsPath(r.choice(WINPATH_POOL))),
    "Path": ("pathlib.Path", type(pathlib.Path()), lambda r: pathlib.Path(r.choice(PATH_POOL))),
    "Pattern": ("re.Pattern", re.Pattern, lambda r: re.compile(r.choice(PATTERN_POOL))),
    "date": ("datetime.date", datetime.date, gen_date),
    "datetime": ("datetime.datetime", datetime.datetime, gen_datetime),
    "time": ("datetime.time", datetime.time, gen_time),
    "timedelta": ("datetime.timedelta", datetime.timedelta, gen_timedelta),
}
SCALAR_NAMES = list(SCALARS)
# `None` as a member type in its own right (`tuple[int, None]`): only where a workload asks for it (Opts.none_members)
SCALARS["None"] = ("None", type(None), lambda r: None)
HASHABLE_KEY_SCALARS = ["str", "int", "bool", "float", "Decimal", "Fraction", "UUID", "PurePosixPath", "date", "datetime", "time", "timedelta"]

COLL_CTORS = {
    # src-prefix: (runtime class, hashable-elements-needed, family)
    "list": (list, False), "typing.List": (list, False), "typing.Sequence": (list, False),
    "typing.MutableSequence": (list, False), "typing.Collection": (list, False), "typing.Iterable": (list, False),
    "collections.abc.Sequence": (list, False), "collections.abc.MutableSequence": (list, False),
    "collections.abc.Collection": (list, False), "collections.abc.Iterable": (list, False),
    "set": (set, True), "typing.Set": (set, True), "typing.AbstractSet": (set, True), "typing.MutableSet": (set, True),
    "collections.abc.Set": (set, True), "collections.abc.MutableSet": (set, True),
    "frozenset": (frozenset, True), "typing.FrozenSet": (frozenset, True),
    "collections.deque": (collections.deque, False), "typing.Deque": (collections.deque, False),
    "tuple...": (tuple, False), "typing.Tuple...": (tuple, False),
}
COMMON_COLLS = ["list", "list", "list", "set", "frozenset", "collections.deque", "tuple...", "typing.List", "typing.Sequence"]
MAP_CTORS = {
    "dict": dict, "typing.Dict": dict, "typing.Mapping": dict, "typing.MutableMapping": dict,
    "collections.abc.Mapping": dict, "collections.abc.MutableMapping": dict,
    "collections.OrderedDict": collections.OrderedDict, "typing.OrderedDict": collections.OrderedDict,
}
COMMON_MAPS = ["dict", "dict", "dict", "typing.Dict", "typing.Mapping", "collections.OrderedDict"]

STRUCT_FLAVOURS = ["dataclass", "dataclass", "dc_slots", "dc_kwonly", "dc_frozen", "namedtuple", "typeddict",
                   "typeddict_partial", "typeddict_notrequired", "typeddict_partial_required", "typeddict_inherit", "typeddict_inherit_rev", "plain", "plain_initonly",
                   "slotsclass"]
HASHABLE_STRUCT_FLAVOURS = ["dc_frozen", "namedtuple"]
FIELD_NAMES = ["f0", "f1", "f2", "f3", "x", "y", "val", "id", "data", "name", "value", "kind", "items_", "key"]
ENUM_STR_VALUES = ["1", "null", "[1]", "x", "a b", "true", "2020-01-01", "", "None", "1.5", "yes", '{"a":1}']


class Opts:
    """Generation options (which parts of the grammar are enabled)."""

    def __init__(self, **kw):
        self.depth = 3
        self.unions = True
        self.multi_unions = True
        self.structs = True
        self.recursive = True
        self.wrappers = True
        self.str_keys_only = False
        self.json_ints = False
        self.scalars = list(SCALAR_NAMES)
        self.all_spellings = True
        self.hashable = False
        self.literals = True
        self.enums = True
        self.flavours = list(STRUCT_FLAVOURS)
        self.share_prob = 0.25  # probability to reuse an already generated sub-spec (sharing / diamonds)
        self.qualifiers_on_fields = True
        self.none_members = False  # fixed tuples may hold a bare `None` member (at any position)
        # Flag / IntFlag enums: CPython itself caches the pseudo-members it creates for combined values on the enum class, so whether
        #   `Perm(3.0)` is accepted depends on whether `Perm(3)` was ever built in the process - workloads that compare with a cold
        #   process switch these flavours off
        self.flag_enums = True
        self.__dict__.update(kw)

    def but(self, **kw):
        o = Opts(**self.__dict__)
        o.__dict__.update(kw)
        return o


class Gen:
    """Type generator bound to one Program."""

    def __init__(self, prog: Program, rng, opts: Opts):
        self.prog, self.rng, self.opts = prog, rng, opts
        self.pool: list[Spec] = []  # generated non-hashable-restricted specs, for sharing
        self.structs: dict[str, Spec] = {}

    # -- leaves ---------------------------------------------------------------------
    def scalar(self, name=None, hashable=False):
        rng = self.rng
        names = [n for n in self.opts.scalars if not hashable or n != "Pattern"]
        name = name or rng.choice(names)
        src, cls, _ = SCALARS[name]
        return self.prog.spec("scalar", src, name=name, cls=cls)

    def literal(self):
        rng = self.rng
        k = rng.randrange(1, 5)
        cands = [None, True, False, 0, 1, 2, -1, 10**20 if not self.opts.json_ints else 77, "a", "1", "null", "", "x y", "True", "[1]"]
        members = []
        seen = set()
        while len(members) < k:
            m = rng.choice(cands)
            key = (type(m).__name__, m)
            if key in seen:
                continue
            seen.add(key)
            members.append(m)
        src = "typing.Literal[" + ", ".join(repr(m) for m in members) + "]"
        return self.prog.spec("literal", src, members=members)

    def enum(self):
        rng = self.rng
        flavour = rng.choice(["Enum", "Enum", "IntEnum", "StrMixin", "IntMixin", "StrEnum"] + (["Flag", "IntFlag"] if self.opts.flag_enums else []))
        name = self.prog.fresh("E")
        n = rng.randrange(1, 5)
        if flavour in ("Flag", "IntFlag"):
            vals = rng.sample([1, 2, 4, 8], n)  # combined members (a | b) and the empty flag are valid values without a name of their own
        elif flavour in ("IntEnum", "IntMixin"):
            vals = rng.sample([0, 1, 2, 3, -1, 100, 2**40], n)
        elif flavour in ("StrMixin", "StrEnum"):
            vals = rng.sample(ENUM_STR_VALUES, n)
        else:
            vals = rng.sample([0, 1, 2, -5, 2.5] + ENUM_STR_VALUES, n)
            # members must be distinct under == (no aliases)
            uniq = []
            for v in vals:
                if not any(v == u for u in uniq):
                    uniq.append(v)
            vals = uniq
        base = {"Enum": "enum.Enum", "IntEnum": "enum.IntEnum", "StrMixin": "str, enum.Enum", "IntMixin": "int, enum.Enum",
                "StrEnum": "enum.StrEnum", "Flag": "enum.Flag", "IntFlag": "enum.IntFlag"}[flavour]
        if flavour in ("Enum", "StrMixin", "StrEnum") and len(vals) >= 2 and rng.random() < 0.3:
            # string values that are the NAMES of other members (a state machine's "next state"), and Enum attribute names
            k = rng.randrange(1, len(vals) + 1)
            names_as_values = [f"m{(i + 1) % len(vals)}" for i in range(len(vals))]
            for i in rng.sample(range(len(vals)), k):
                cand = rng.choice([names_as_values[i], names_as_values[i], "name", "value"])
                if not any(cand == v for v in vals):
                    vals[i] = cand
        body = "\n".join(f"    m{i} = {v!r}" for i, v in enumerate(vals))
        self.prog.emit(f"class {name}({base}):\n{body}\n")
        if flavour in ("Flag", "IntFlag"):
            # CPython creates (and caches on the class) a pseudo-member per combined value on first use: create them all up front, so
            #   the class is in the same state whatever is done with it later
            self.prog.emit(f"for _v in range(16):\n    try:\n        {name}(_v)\n    except ValueError:\n        pass\n")
        return self.prog.spec("enum", name, flavour=flavour, values=vals, name=name)

    # -- composites -----------------------------------------------------------------
    def coll(self, depth, hashable=False):
        rng = self.rng
        if hashable:
            ctor = rng.choice(["frozenset", "typing.FrozenSet", "tuple...", "typing.Tuple..."])
        elif self.opts.all_spellings and rng.random() < 0.4:
            ctor = rng.choice(list(COLL_CTORS))
        else:
            ctor = rng.choice(COMMON_COLLS)
        cls, need_hash = COLL_CTORS[ctor]
        elem = self.type(depth - 1, hashable=hashable or need_hash)
        if ctor.endswith("..."):
            src = f"{ctor[:-3]}[{elem.src}, ...]"
        else:
            src = f"{ctor}[{elem.src}]"
        return self.prog.spec("coll", src, [elem], ctor=ctor, cls=cls)

    def fixed(self, depth, hashable=False):
        rng = self.rng
        n = rng.randrange(1, 5)
        elems = [self.type(depth - 1, hashable=hashable) for _ in range(n)]
        if self.opts.none_members and rng.random() < 0.25:
            elems[rng.randrange(len(elems))] = self.prog.spec("scalar", "None", name="None", cls=type(None))
        ctor = rng.choice(["tuple", "tuple", "typing.Tuple"])
        src = f"{ctor}[{', '.join(e.src for e in elems)}]"
        return self.prog.spec("fixed", src, elems, ctor=ctor)

    def mapping(self, depth):
        rng = self.rng
        if self.opts.all_spellings and rng.random() < 0.4:
            ctor = rng.choice(list(MAP_CTORS))
        else:
            ctor = rng.choice(COMMON_MAPS)
        if self.opts.str_keys_only or rng.random() < 0.55:
            key = self.scalar("str")
        else:
            r = rng.random()
            if r < 0.75:
                key = self.scalar(rng.choice([n for n in HASHABLE_KEY_SCALARS if n in self.opts.scalars] or ["str"]))
            elif r < 0.9 and self.opts.enums:
                key = self.enum()
            else:
                key = self.literal() if self.opts.literals else self.scalar("str")
        val = self.type(depth - 1)
        src = f"{ctor}[{key.src}, {val.src}]"
        return self.prog.spec("mapping", src, [key, val], ctor=ctor, cls=MAP_CTORS[ctor])

    def union(self, depth, hashable=False):
        rng = self.rng
        spelling = rng.choice(["Union", "Union", "Optional", "pipe"])
        if spelling == "Optional" or not self.opts.multi_unions:
            members = [self.type(depth - 1, hashable=hashable, no_union=True), None]
            if not self.opts.multi_unions and spelling != "Optional" and rng.random() < 0.5:
                members.reverse()
        else:
            n = rng.randrange(2, 5)
            members = []
            seen_src = set()
            tries = 0
            while len(members) < n and tries < 20:
                tries += 1
                m = self.type(depth - 1, hashable=hashable, no_union=True)
                if m.src in seen_src:
                    continue
                seen_src.add(m.src)
                members.append(m)
            if rng.random() < 0.5:
                members.insert(rng.randrange(len(members) + 1), None)
            if len([m for m in members]) < 2:
                members.append(None)
        srcs = ["None" if m is None else m.src for m in members]
        if spelling == "Optional":
            src = f"typing.Optional[{srcs[0]}]"
        elif spelling == "pipe" and all(self._pipe_ok(m) for m in members):
            src = " | ".join(srcs)
            src = f"({src})"
        else:
            src = f"typing.Union[{', '.join(srcs)}]"
        kids = [m for m in members if m is not None]
        none_pos = next((i for i, m in enumerate(members) if m is None), None)
        return self.prog.spec("union", src, kids, none_pos=none_pos, nmembers=len(members), spelling=spelling,
                              order=[None if m is None else kids.index(m) for m in members])

    @staticmethod
    def _pipe_ok(m):
        # `X | Y` needs operands supporting __or__: classes, generic aliases, typing special forms do; str refs don't.
        return m is None or m.kind not in ("strref",)

    def struct(self, depth, hashable=False, flavour=None, name=None, fields=None):
        rng = self.rng
        flavour = flavour or rng.choice(HASHABLE_STRUCT_FLAVOURS if hashable else self.opts.flavours)
        name = name or self.prog.fresh("S")
        base = None
        if fields is None and flavour == "dataclass" and not hashable and rng.random() < 0.25:
            # single inheritance: a dataclass extending an earlier plain dataclass of this program (fields: base's, then own)
            cands = [s for s in self.structs.values() if s.info["flavour"] == "dataclass" and not s.info.get("base")
                     and all(f[2] is None for f in s.info["fields"]) and s.prog is self.prog]
            if cands:
                base = rng.choice(cands)
        if fields is None and flavour == "plain" and not hashable and rng.random() < 0.3:
            # an annotated plain class extending an earlier annotated plain class: the fields are the parent's and its own
            cands = [s for s in self.structs.values() if s.info["flavour"] == "plain" and not s.info.get("base") and s.prog is self.prog]
            if cands:
                base = rng.choice(cands)
        if fields is None:
            nf = rng.randrange(1, 5)
            names = rng.sample(FIELD_NAMES, nf)
            fields = []
            if base is not None:
                taken = {f[0] for f in base.info["fields"]}
                names = [n for n in names if n not in taken] or [self.prog.fresh("own")]
            for fn in names:
                ft = self.type(depth - 1, hashable=hashable)
                if self.opts.qualifiers_on_fields and flavour in ("dataclass", "dc_slots", "dc_kwonly", "dc_frozen") and rng.random() < 0.12:
                    ft = self.wrap_of(ft, "final")  # `x: Final[T]` (possibly with a default) is an ordinary instance field
                fields.append([fn, ft, None])
            if base is not None:
                fields = [list(f) for f in base.info["fields"]] + fields
        spec = self.prog.spec("struct", name, [f[1] for f in fields], flavour=flavour, name=name, fields=fields)
        if base is not None:
            spec.info["base"] = base.info["name"]
            spec.info["own_from"] = len(base.info["fields"])
        self._emit_struct(spec)
        self.structs[name] = spec
        return spec

    def _ann(self, fspec, cls_name=None):
        """Annotation source for a field; self references must be quoted in non-future modules."""
        return fspec.src

    def _emit_struct(self, spec):
        rng = self.rng
        fl = spec.info["flavour"]
        name = spec.info["name"]
        fields = spec.info["fields"]
        # decide defaults: once a default appears, all later ones get a default (dataclass / namedtuple rule)
        defaults = {}
        if fl in ("dataclass", "dc_slots", "dc_frozen", "dc_kwonly", "namedtuple") and rng.random() < 0.4:
            def _dflt(f):
                p = f[1].peel() if f[1].kind != "rec" else f[1]
                if fl != "namedtuple" and p.kind == "coll" and p.info["cls"] is list:
                    return True
                if fl != "namedtuple" and p.kind == "mapping" and p.info["cls"] is dict:
                    return True
                return p.kind == "scalar" and p.info["name"] in ("int", "str", "bool")
            tail = len(fields)
            while tail > spec.info.get("own_from", 0) and _dflt(fields[tail - 1]):  # inherited fields keep the base's (no) defaults
                tail -= 1
            if tail < len(fields):
                start = rng.randrange(tail, len(fields))
                for f in fields[start:]:
                    p = f[1].peel()
                    if p.kind == "coll":
                        defaults[f[0]] = "dataclasses.field(default_factory=list)"
                    elif p.kind == "mapping":
                        defaults[f[0]] = "dataclasses.field(default_factory=dict)"
                    else:
                        defaults[f[0]] = {"int": "7", "str": "'dflt'", "bool": "True"}[p.info["name"]]
        for f in fields:
            f[2] = defaults.get(f[0])
        spec.info["required"] = [f[0] for f in fields if f[2] is None]
        q = lambda f: f[1].src
        if fl.startswith("dc") or fl == "dataclass":
            args = {"dataclass": "", "dc_slots": "slots=True", "dc_kwonly": "kw_only=True", "dc_frozen": "frozen=True"}[fl]
            extra = ""
            if rng.random() < 0.2 and not self.opts.hashable:
                extra = "    CONST: typing.ClassVar[int] = 3\n"
            own = fields[spec.info.get("own_from", 0):]
            body = "".join(f"    {f[0]}: {q(f)}" + (f" = {f[2]}" if f[2] is not None else "") + "\n" for f in own) or "    pass\n"
            parent = f"({spec.info['base']})" if spec.info.get("base") else ""
            self.prog.emit(f"@dataclasses.dataclass({args})\nclass {name}{parent}:\n{extra}{body}")
        elif fl == "namedtuple":
            body = "".join(f"    {f[0]}: {q(f)}" + (f" = {f[2]}" if f[2] is not None else "") + "\n" for f in fields)
            self.prog.emit(f"class {name}(typing.NamedTuple):\n{body}")
        elif fl == "typeddict_inherit":
            # a total=False TypedDict extending a total one: the base's keys stay required
            k = rng.randrange(1, len(fields) + 1)
            base_name = name + "_tdbase"
            self.prog.emit(f"class {base_name}(typing.TypedDict):\n" + "".join(f"    {f[0]}: {q(f)}\n" for f in fields[:k]))
            self.prog.emit(f"class {name}({base_name}, total=False):\n" + ("".join(f"    {f[0]}: {q(f)}\n" for f in fields[k:]) or "    pass\n"))
            spec.info["required"] = [f[0] for f in fields[:k]]
        elif fl == "typeddict_inherit_rev":
            # a total TypedDict extending a total=False one: the base's keys stay optional
            k = rng.randrange(1, len(fields) + 1)
            base_name = name + "_tdbase"
            self.prog.emit(f"class {base_name}(typing.TypedDict, total=False):\n" + "".join(f"    {f[0]}: {q(f)}\n" for f in fields[:k]))
            self.prog.emit(f"class {name}({base_name}):\n" + ("".join(f"    {f[0]}: {q(f)}\n" for f in fields[k:]) or "    pass\n"))
            spec.info["required"] = [f[0] for f in fields[k:]]
        elif fl == "typeddict_partial_required":
            # total=False with individual keys marked Required[...]
            lines, req = [], []
            for i, f in enumerate(fields):
                if i % 2 == 0:
                    lines.append(f"    {f[0]}: typing.Required[{q(f)}]\n")
                    req.append(f[0])
                else:
                    lines.append(f"    {f[0]}: {q(f)}\n")
            spec.info["required"] = req
            self.prog.emit(f"class {name}(typing.TypedDict, total=False):\n{''.join(lines)}")
        elif fl.startswith("typeddict"):
            total = "" if fl != "typeddict_partial" else ", total=False"
            lines = []
            req = []
            for i, f in enumerate(fields):
                if fl == "typeddict_notrequired" and i % 2 == 1:
                    lines.append(f"    {f[0]}: typing.NotRequired[{q(f)}]\n")
                else:
                    lines.append(f"    {f[0]}: {q(f)}\n")
                    if fl != "typeddict_partial":
                        req.append(f[0])
            spec.info["required"] = req
            self.prog.emit(f"class {name}(typing.TypedDict{total}):\n{''.join(lines)}")
        elif fl in ("plain", "plain_initonly", "slotsclass"):
            anns = "".join(f"    {f[0]}: {q(f)}\n" for f in fields) if fl != "plain_initonly" else ""
            slots = f"    __slots__ = ({', '.join(repr(f[0]) for f in fields)},)\n" if fl == "slotsclass" else ""
            if fl == "slotsclass":
                anns = ""
            params = ", ".join(f"{f[0]}: {q(f)}" for f in fields)
            assigns = "".join(f"        self.{f[0]} = {f[0]}\n" for f in fields)
            names = ", ".join(repr(f[0]) for f in fields)
            parent = ""
            if spec.info.get("base") and fl == "plain":
                parent = f"({spec.info['base']})"
                anns = "".join(f"    {f[0]}: {q(f)}\n" for f in fields[spec.info["own_from"]:])  # only its own annotations
            self.prog.emit(
                f"class {name}{parent}:\n{slots}{anns}"
                f"    def __init__(self, {params}):\n{assigns}"
                f"    def __eq__(self, o):\n        return type(o) is type(self) and all(getattr(self, n) == getattr(o, n) for n in ({names},))\n"
                f"    def __hash__(self):\n        return hash(tuple(repr(getattr(self, n)) for n in ({names},)))\n"
                f"    def __repr__(self):\n        return '{name}(' + ', '.join(f'{{n}}={{getattr(self, n)!r}}' for n in ({names},)) + ')'\n"
            )
        else:
            raise AssertionError(fl)

    def recursive_struct(self, depth, nclasses=None):
        """Self-/mutually-recursive classes; cycles closed through Optional/list/dict/tuple edges."""
        rng = self.rng
        n = nclasses or rng.choice([1, 1, 2, 3])
        names = [self.prog.fresh("R") for _ in range(n)]
        holders = {}
        specs = []
        for i, name in enumerate(names):
            target = names[(i + 1) % n]
            flavour = rng.choice(["dataclass", "dataclass", "dc_slots", "namedtuple", "typeddict_partial", "plain", "dc_kwonly"])
            edge = rng.choice(["optional", "optional", "list", "dict", "tuplevar", "pipe", "nonefirst"])
            fields = []
            if rng.random() < 0.8:
                fields.append(["val", self.type(min(depth - 1, 1), no_rec=True), None])
            rec = self._rec_edge(edge, target, holders)
            fields.append(["next", rec, None])
            if rng.random() < 0.3:
                fields.append(["tag", self.scalar("str"), None])
            if rng.random() < 0.25 and n > 1:
                fields.append(["selfref", self._rec_edge(rng.choice(["optional", "list"]), name, holders), None])
            specs.append((name, flavour, fields))
        out = []
        for name, flavour, fields in specs:
            s = self.struct(depth, flavour=flavour, name=name, fields=fields)
            holders[name] = s
            out.append(s)
        return out[0] if rng.random() < 0.7 else rng.choice(out)

    def _rec_edge(self, edge, target, holders):
        ref = repr(target) if not self.prog.future else target
        rec = self.prog.spec("rec", ref, name=target, target=lambda: holders[target])
        rec.t = "<rec>"  # never evaluated on its own
        strk = self.scalar("str")
        if edge == "optional":
            return self.prog_spec_noeval("union", f"typing.Optional[{ref}]", [rec], none_pos=1, nmembers=2, spelling="Optional", order=[0, None])
        if edge == "pipe":
            if self.prog.future:
                return self.prog_spec_noeval("union", f"{ref} | None", [rec], none_pos=1, nmembers=2, spelling="pipe", order=[0, None])
            return self.prog_spec_noeval("union", f"typing.Union[{ref}, None]", [rec], none_pos=1, nmembers=2, spelling="Union", order=[0, None])
        if edge == "nonefirst":
            # None declared first
            if self.prog.future:
                return self.prog_spec_noeval("union", f"None | {ref}", [rec], none_pos=0, nmembers=2, spelling="pipe", order=[None, 0])
            return self.prog_spec_noeval("union", f"typing.Union[None, {ref}]", [rec], none_pos=0, nmembers=2, spelling="Union", order=[None, 0])
        if edge == "list":
            return self.prog_spec_noeval("coll", f"list[{ref}]", [rec], ctor="list", cls=list)
        if edge == "dict":
            return self.prog_spec_noeval("mapping", f"dict[str, {ref}]", [strk, rec], ctor="dict", cls=dict)
        if edge == "tuplevar":
            return self.prog_spec_noeval("coll", f"tuple[{ref}, ...]", [rec], ctor="tuple...", cls=tuple)
        raise AssertionError(edge)

    def prog_spec_noeval(self, kind, src, kids, **info):
        s = self.prog.spec(kind, src, kids, **info)
        s.t = "<rec-edge>"  # contains a (possibly quoted) self reference: evaluated after the module is built
        rec = next(k for k in kids if k.kind == "rec")
        s.info["eval_src"] = src.replace(repr(rec.info["name"]), rec.info["name"])
        return s

    def wrap(self, depth, hashable=False):
        rng = self.rng
        inner = self.type(depth - 1, hashable=hashable)
        w = rng.choice(["newtype", "alias", "alias", "stralias"])
        return self.wrap_of(inner, w)

    def wrap_of(self, inner, w):
        if w in ("newtype", "alias") and self.rng.random() < 0.2:
            # defined inside a function (its name matches its variable there, as typing asks), handed out under another module-level
            # name: the wrapper cannot be imported from its module by its own name
            name = self.prog.fresh("N" if w == "newtype" else "A")
            ctor = "NewType" if w == "newtype" else "TypeAliasType"
            self.prog.emit(f"def _mk_{name}():\n    {name} = typing.{ctor}({name!r}, {inner.src})\n    return {name}\nL{name} = _mk_{name}()")
            return self.prog.spec("wrap", f"L{name}", [inner], w=w, name=f"L{name}")
        if w == "newtype":
            name = self.prog.fresh("N")
            self.prog.emit(f"{name} = typing.NewType({name!r}, {inner.src})")
            return self.prog.spec("wrap", name, [inner], w=w, name=name)
        if w == "alias":
            name = self.prog.fresh("A")
            self.prog.emit(f"{name} = typing.TypeAliasType({name!r}, {inner.src})")
            return self.prog.spec("wrap", name, [inner], w=w, name=name)
        if w == "stralias":
            name = self.prog.fresh("SA")
            self.prog.emit(f"{name} = typing.TypeAliasType({name!r}, {inner.src!r})")
            return self.prog.spec("wrap", name, [inner], w=w, name=name)
        if w == "final":
            return self.prog.spec("wrap", f"typing.Final[{inner.src}]", [inner], w=w)
        if w == "classvar":
            return self.prog.spec("wrap", f"typing.ClassVar[{inner.src}]", [inner], w=w)
        if w == "strref":
            # a name bound in the module, referenced by string
            name = self.prog.fresh("SR")
            self.prog.emit(f"{name} = {inner.src}")
            s = self.prog.spec("wrap", repr(name), [inner], w=w, name=name)
            return s
        if w == "strref_dotted":
            # the target is an attribute of a class (as a nested class is), one or two levels down: "Holder.Member"
            holder = self.prog.fresh("Holder")
            two = self.rng.random() < 0.3
            self.prog.emit(f"class {holder}:\n    class Sub:\n        pass\n")
            path = f"{holder}.Sub.Member" if two else f"{holder}.Member"
            self.prog.emit(f"{path} = {inner.src}")
            return self.prog.spec("wrap", repr(path), [inner], w=w, name=path)
        if w == "strexpr":
            # the type's own source text as the reference ("dict[str, decimal.Decimal]")
            return self.prog.spec("wrap", repr(inner.src), [inner], w=w, name=None)
        if w == "fwdref":
            name = self.prog.fresh("FR")
            self.prog.emit(f"{name} = {inner.src}")
            return self.prog.spec("wrap", f"typing.ForwardRef({name!r}, module={self.prog.name!r})", [inner], w=w, name=name)
        raise AssertionError(w)

    # -- entry point ----------------------------------------------------------------
    def type(self, depth, hashable=False, no_union=False, no_rec=False):
        rng, o = self.rng, self.opts
        hashable = hashable or o.hashable
        if not hashable and not no_union and self.pool and rng.random() < o.share_prob:
            cand = rng.choice(self.pool)
            if _depth(cand) <= depth:
                return cand
        if depth <= 0:
            r = rng.random()
            if r < 0.12 and o.literals:
                s = self.literal()
            elif r < 0.24 and o.enums:
                s = self.enum()
            else:
                s = self.scalar(hashable=hashable)
            return s
        choices = [("scalar", 3), ("coll", 3), ("fixed", 2)]
        if o.literals:
            choices.append(("literal", 1))
        if o.enums:
            choices.append(("enum", 1))
        if not hashable:
            choices.append(("mapping", 3))
        if o.unions and not no_union:
            choices.append(("union", 2))
        if o.structs:
            choices.append(("struct", 3))
        if o.recursive and not hashable and not no_rec and o.structs:
            choices.append(("rec", 1))
        if o.wrappers:
            choices.append(("wrap", 1.5))
        kinds, weights = zip(*choices)
        k = rng.choices(kinds, weights)[0]
        if k == "scalar":
            s = self.scalar(hashable=hashable)
        elif k == "literal":
            s = self.literal()
        elif k == "enum":
            s = self.enum()
        elif k == "coll":
            s = self.coll(depth, hashable)
        elif k == "fixed":
            s = self.fixed(depth, hashable)
        elif k == "mapping":
            s = self.mapping(depth)
        elif k == "union":
            s = self.union(depth, hashable)
        elif k == "struct":
            s = self.struct(depth, hashable)
        elif k == "rec":
            s = self.recursive_struct(depth)
        else:
            s = self.wrap(depth, hashable)
        if not hashable and s.kind not in ("scalar",):
            self.pool.append(s)
        return s


def _depth(s, seen=None):
    seen = seen or set()
    if id(s) in seen or s.kind == "rec":
        return 0
    seen.add(id(s))
    return 1 + max((_depth(k, seen) for k in s.kids), default=0) if s.kids else 0


# ----------------------------------------------------------------------------------------
# facts

def facts(spec):
    f = dict(has_union=False, has_multi_union=False, str_keyed=True, recursive=False, has_struct=False, has_wrap=False,
             has_set=False, kinds=set())
    for s in spec.walk():
        f["kinds"].add(s.kind)
        if s.kind == "union":
            f["has_union"] = True
            if len(s.kids) >= 2:
                f["has_multi_union"] = True
        elif s.kind == "mapping":
            k = s.kids[0].peel()
            if not (k.kind == "scalar" and k.info["name"] == "str"):
                f["str_keyed"] = False
        elif s.kind == "rec":
            f["recursive"] = True
        elif s.kind == "struct":
            f["has_struct"] = True
        elif s.kind == "wrap":
            f["has_wrap"] = True
        elif s.kind == "coll" and s.info["cls"] in (set, frozenset):
            f["has_set"] = True
    return f


def skeleton(spec, seen=None, depth=0):
    """Constructor skeleton (shape without names) used to count distinct type shapes."""
    seen = seen or set()
    if id(spec) in seen or depth > 8:
        return "@"
    seen = seen | {id(spec)}
    k = spec.kind
    if k == "scalar":
        return spec.info["name"]
    if k == "literal":
        return "Lit" + str(len(spec.info["members"]))
    if k == "enum":
        return "E:" + spec.info["flavour"]
    if k == "rec":
        return "rec"
    head = {"coll": lambda: spec.info["ctor"], "fixed": lambda: "fixed", "mapping": lambda: spec.info["ctor"],
            "union": lambda: "U" + str(spec.info["none_pos"]), "struct": lambda: spec.info["flavour"],
            "wrap": lambda: spec.info["w"]}[k]()
    return head + "(" + ",".join(skeleton(c, seen, depth + 1) for c in spec.kids) + ")"


# ----------------------------------------------------------------------------------------
# valid values

class ValueGen:
    def __init__(self, rng, big_ints=True, max_len=4, budget=6, flagged_patterns=False):
        self.rng, self.big_ints, self.max_len, self.budget = rng, big_ints, max_len, budget
        # compiled patterns carrying compile flags / bytes patterns: valid re.Pattern VALUES whose wire form (the source text) cannot
        #   carry the flags - only for workloads that do not send the value over the wire (pass-through, C13)
        self.flagged_patterns = flagged_patterns
        self.last = {}  # last aware datetime/time handed out: source of "same instant, other offset" twins

    def _twin(self, name):
        """With some probability: a value EQUAL to the previous datetime/time (same instant) but at another UTC offset -
        equal and hash-equal, yet a different value under the properties (offset must survive)."""
        prev = self.last.get(name)
        if prev is None or self.rng.random() > 0.3:
            return None
        off = datetime.timezone(datetime.timedelta(minutes=self.rng.randrange(-720, 721)))
        try:
            if name == "datetime":
                return prev.astimezone(off)
            base = datetime.datetime(2000, 1, 2, prev.hour, prev.minute, prev.second, prev.microsecond, tzinfo=prev.tzinfo)
            moved = base.astimezone(off)
            if moved.date() == base.date():
                return moved.timetz()
        except (OverflowError, ValueError):
            pass
        return None

    def value(self, spec, budget=None):
        rng = self.rng
        budget = self.budget if budget is None else budget
        k = spec.kind
        if k == "scalar":
            name = spec.info["name"]
            if name == "int":
                return gen_int(rng, big=self.big_ints)
            if name in ("datetime", "time"):
                v = self._twin(name)
                if v is None:
                    v = SCALARS[name][2](rng)
                self.last[name] = v
                return v
            if name == "Pattern" and self.flagged_patterns and rng.random() < 0.6:
                flags = 0
                for f in rng.sample([re.I, re.M, re.S, re.X, re.A], rng.randrange(1, 3)):
                    flags |= f
                if rng.random() < 0.25:
                    return re.compile(rng.choice(PATTERN_POOL).encode(), flags & ~re.A if rng.random() < 0.5 else 0)
                return re.compile(rng.choice(PATTERN_POOL), flags)
            return SCALARS[name][2](rng)
        if k == "literal":
            return rng.choice(spec.info["members"])
        if k == "enum":
            members = list(spec.t)
            if spec.info["flavour"] in ("Flag", "IntFlag") and rng.random() < 0.5:
                v = spec.t(0)
                for m in rng.sample(members, rng.randrange(0, len(members) + 1)):
                    v = v | m
                return v
            return rng.choice(members)
        if k == "coll":
            n = 0 if budget <= 0 else rng.choice([0, 1, 1, 2, 2, 3, self.max_len])
            if budget == self.budget and spec.kids[0].peel().kind in ("scalar", "enum", "literal") and rng.random() < 0.04:
                n = 1000  # a large top-level container of leaves
            items = [self.value(spec.kids[0], budget - 1) for _ in range(n)]
            cls = spec.info["cls"]
            return cls(items)
        if k == "fixed":
            return tuple(self.value(c, budget - 1) for c in spec.kids)
        if k == "mapping":
            n = 0 if budget <= 0 else rng.choice([0, 1, 1, 2, 3])
            d = spec.info["cls"]()
            for _ in range(n):
                d[self.value(spec.kids[0], budget - 1)] = self.value(spec.kids[1], budget - 1)
            return d
        if k == "union":
            order = spec.info["order"]
            choices = list(order)
            if budget <= 0 and None in choices:
                return None
            pick = rng.choice(choices)
            if pick is None:
                return None
            return self.value(spec.kids[pick], budget - 1)
        if k == "struct":
            fl = spec.info["flavour"]
            vals = {}
            for fname, fspec, default in spec.info["fields"]:
                if default is not None and rng.random() < 0.3:
                    continue
                if fl.startswith("typeddict") and fname not in spec.info["required"] and rng.random() < 0.4:
                    continue
                vals[fname] = self.value(fspec, budget - 1)
            if fl.startswith("typeddict"):
                return dict(vals)
            return spec.t(**vals)
        if k == "wrap":
            return self.value(spec.kids[0], budget)
        if k == "rec":
            return self.value(spec.info["target"](), budget - 1)
        raise AssertionError(k)


def reconcile(spec, seen=None):
    """Top-down: make every member spec carry the *actual* object held by its parent's type (typing interns
    equal generics, so `typing.List[Union[str, int]]` may really hold `Union[int, str]` built earlier), and
    re-derive each union's declared order from the object itself."""
    seen = set() if seen is None else seen
    if id(spec) in seen:
        return
    seen.add(id(spec))
    t, k = spec.t, spec.kind
    try:
        if k == "coll":
            spec.kids[0].t = typing.get_args(t)[0]
        elif k == "fixed":
            for c, a in zip(spec.kids, typing.get_args(t)):
                c.t = a
        elif k == "mapping":
            spec.kids[0].t, spec.kids[1].t = typing.get_args(t)
        elif k == "union":
            args = list(typing.get_args(t))
            free = list(range(len(spec.kids)))
            order = []
            for a in args:
                if a is type(None):
                    order.append(None)
                    continue
                hit = next((i for i in free if _same_type(spec.kids[i], a)), None)
                if hit is None:
                    order = None
                    break
                free.remove(hit)
                spec.kids[hit].t = a
                order.append(hit)
            if order is not None and not free:
                spec.info["order"] = order
                spec.info["none_pos"] = order.index(None) if None in order else None
        elif k == "struct":
            cls = t
            fl = spec.info["flavour"]
            hints = typing.get_type_hints(cls.__init__ if fl in ("plain_initonly", "slotsclass") else cls)
            for fname, fspec, _ in spec.info["fields"]:
                if fname in hints and fspec.kind != "rec":
                    fspec.t = hints[fname]
        elif k == "wrap":
            w = spec.info["w"]
            if w == "newtype":
                spec.kids[0].t = t.__supertype__
            elif w == "alias":
                spec.kids[0].t = t.__value__
            elif w in ("final", "classvar"):
                spec.kids[0].t = typing.get_args(t)[0]
    except Exception:  # noqa: BLE001 - reconciliation is best effort; the evaluated objects stay
        pass
    for c in spec.kids:
        if c.kind != "rec":
            reconcile(c, seen)


def _same_type(spec, obj):
    try:
        return spec.t == obj
    except Exception:  # noqa: BLE001
        return False
