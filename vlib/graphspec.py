"""C09 clause checker for graph.static_order / itertypes results (used as a post-condition monitor).

Everything about "what a type contains" is computed here from `typing`/`dataclasses` only."""
from __future__ import annotations

import enum
import inspect
import typing

NoneType = type(None)


def peel(t):
    """Harness's own unwrap: NewType, TypeAliasType (evaluated value), Final/ClassVar qualifiers."""
    seen = 0
    while seen < 50:
        seen += 1
        if hasattr(t, "__supertype__"):
            t = t.__supertype__
            continue
        if isinstance(t, typing.TypeAliasType):
            v = t.__value__  # typing evaluates lazily; a string value stays a str
            if isinstance(v, str):
                return t  # string-valued alias: a deferred leaf
            t = v
            continue
        o = typing.get_origin(t)
        if o in (typing.Final, typing.ClassVar) and typing.get_args(t):
            t = typing.get_args(t)[0]
            continue
        return t
    return t


def is_string_alias(t):
    return isinstance(t, typing.TypeAliasType) and isinstance(t.__value__, str)


def is_user_class(t):
    return inspect.isclass(t) and getattr(t, "__module__", "").startswith(("vgen_", "vtopo_", "tests."))


def exempt(m):
    return (m is typing.Any or m is Ellipsis or m is inspect.Parameter.empty or isinstance(m, typing.TypeVar)
            or isinstance(m, (list, tuple)) or m is ...)


def members(x):
    """Direct member types of the (peeled) type x, as the harness sees them."""
    if typing.get_origin(x) is typing.Literal:
        return []
    out = [a for a in typing.get_args(x) if not exempt(a)]
    if typing.get_origin(x) is typing.Annotated:
        out = out[:1]
    o = typing.get_origin(x)
    if is_user_class(o) and isinstance(getattr(o, "__parameters__", None), tuple) and o.__parameters__:
        # a parameterised user generic: the field types of its class with the type-variables filled in
        given = dict(zip(o.__parameters__, typing.get_args(x)))
        try:
            hints = typing.get_type_hints(o)
        except Exception:  # noqa: BLE001
            hints = {}
        if not hints:
            try:
                hints = {k: v for k, v in typing.get_type_hints(o.__init__).items() if k != "return"}
            except Exception:  # noqa: BLE001
                hints = {}
        for h in hints.values():
            if h in given:
                h = given[h]
            elif getattr(h, "__parameters__", None) and any(p_ in given for p_ in h.__parameters__):
                h = h[tuple(given.get(p_, p_) for p_ in h.__parameters__)]
            if not exempt(h):
                out.append(h)
    if is_user_class(x):
        try:
            hints = typing.get_type_hints(x)
        except Exception:  # noqa: BLE001
            hints = {}
        if not hints:
            try:
                hints = {k: v for k, v in typing.get_type_hints(x.__init__).items() if k != "return"}
            except Exception:  # noqa: BLE001
                hints = {}
        out.extend(h for h in hints.values() if not exempt(h))
    return out


def denotes(node, evaluate):
    """The type a deferred node stands for."""
    t = node.type
    if isinstance(t, typing.ForwardRef):
        try:
            return evaluate(t)
        except NameError:
            # a NewType / alias defined inside a function is not bound under its own name in its module: find the object that
            # carries this name among the module's attributes (the wrapper was handed out under another name)
            import sys

            mod = sys.modules.get(t.__forward_module__ or "")
            for obj in list(vars(mod).values()) if mod is not None else ():
                if getattr(obj, "__name__", None) == t.__forward_arg__ and (hasattr(obj, "__supertype__") or isinstance(obj, typing.TypeAliasType)):
                    return obj
            raise
    return t


def teq(a, b):
    try:
        return a == b
    except Exception:  # noqa: BLE001
        return a is b


def check_sequence(root, nodes, evaluate):
    """Returns a list of (clause, detail) violations for static_order(root) == nodes.
    `root` must already be the evaluated type (not a str / ForwardRef)."""
    v = []
    nodes = list(nodes)
    if not nodes:
        return [("empty", "no nodes returned")]
    # duplicate-free
    for i, a in enumerate(nodes):
        for b in nodes[i + 1:]:
            if a == b:
                v.append(("duplicate", f"{a!r}"))
                break
    # last is root
    last = nodes[-1]
    if not (teq(last.type, root) and not last.cyclic):
        v.append(("last-not-root", f"last={last!r} root={root!r}"))
    full_index = {}
    for i, n in enumerate(nodes):
        t = n.type
        # forward-reference nodes are flagged cyclic
        if isinstance(t, typing.ForwardRef) and not n.cyclic:
            v.append(("forwardref-not-flagged", f"{n!r}"))
        if not n.cyclic:
            full_index.setdefault(i, n)
    fulls = [(i, n) for i, n in enumerate(nodes) if not n.cyclic]
    # deferred nodes
    for i, n in enumerate(nodes):
        if not n.cyclic:
            continue
        try:
            d = denotes(n, evaluate)
        except Exception as e:  # noqa: BLE001
            # a NewType / alias defined inside a function cannot be looked up by name in its module; the reference then stands for the
            # full node of that name (a revisit by name)
            byname = [f for _, f in fulls if isinstance(n.type, typing.ForwardRef) and getattr(f.type, "__name__", None) == n.type.__forward_arg__
                      and (hasattr(f.type, "__supertype__") or isinstance(f.type, typing.TypeAliasType))]
            if byname:
                continue
            v.append(("deferred-does-not-evaluate", f"{n!r}: {type(e).__name__}: {e}"[:300]))
            continue
        # a revisit: the denoted type is also present as a full node
        if not any(teq(f.type, d) or teq(peel(f.type), peel(d)) for _, f in fulls):
            v.append(("deferred-not-a-revisit", f"{n!r} denotes {d!r} which has no full node"))
    # nodes stand for member TYPES: a plain value (the values of a Literal are values, not members) is never a node - unless it is a
    # string some generic carries as an argument (`list['Name']`, a reference) or a class lists as a raw annotation
    for i, n in enumerate(nodes):
        t = n.type
        if not (t is None or isinstance(t, (int, float, str, bytes, enum.Enum))) or i == len(nodes) - 1:
            continue  # (the root is whatever the caller asked for)
        explained = False
        for f in nodes:
            if f is n:
                continue
            x = peel(f.type)
            if typing.get_origin(x) is typing.Literal:
                continue
            raw = list(typing.get_args(x)) + list(getattr(x, "__annotations__", {}).values() if inspect.isclass(x) else [])
            if any(a is t or (type(a) is type(t) and a == t) for a in raw):
                explained = True
                break
        if not explained:
            v.append(("value-node", f"{n!r}: a value, not a type, and no generic or class lists it as a member"))
    # string-valued alias: single deferred node carrying a ForwardRef to its body
    for i, n in fulls:
        if is_string_alias(n.type):
            u = n.unwrapped
            if not (isinstance(u, typing.ForwardRef) and u.__forward_arg__ == n.type.__value__):
                v.append(("string-alias-not-deferred", f"{n!r}"))
    # completeness + order
    for i, n in fulls:
        x = peel(n.type)
        if is_string_alias(x) or isinstance(x, typing.ForwardRef) or isinstance(x, str):
            continue
        for m in members(x):
            ok = False
            for j in range(i):
                c = nodes[j]
                if c.cyclic:
                    try:
                        d = denotes(c, evaluate)
                    except Exception:  # noqa: BLE001
                        if isinstance(c.type, typing.ForwardRef) and getattr(m, "__name__", None) == c.type.__forward_arg__ and (
                                hasattr(m, "__supertype__") or isinstance(m, typing.TypeAliasType)):
                            ok = True
                            break
                        continue
                    if teq(d, m) or (teq(peel(d), peel(m)) and not is_param_loss(d, m)):
                        ok = True
                        break
                elif teq(c.type, m) or teq(c.unwrapped, m) or teq(c.unwrapped, peel(m)) or teq(peel(c.type), peel(m)):
                    ok = True
                    break
            if not ok:
                v.append(("member-not-before", f"node {n!r} (#{i}) contains {m!r} with no earlier node standing for it"))
    return v


def is_param_loss(d, m):
    return bool(typing.get_args(peel(m))) and not typing.get_args(peel(d))
