"""Class-graph topologies (C07, C09): digraphs over a few synthesised dataclasses, each edge a field whose
annotation reaches the target through a chosen edge kind."""
from __future__ import annotations

import itertools
import sys
import types

EDGE_KINDS = ["direct", "optional", "list", "dict", "tuplevar", "pipe", "nonefirst", "unionnone"]
CLOSING_KINDS = ["optional", "list", "dict", "tuplevar", "pipe", "nonefirst", "unionnone"]  # kinds through which a finite value can end

_COUNTER = [0]
STYLE_COUNTS: dict = {}


def ann(kind, target, quoted=False):
    if quoted:
        # evaluated annotations (no PEP 563): the class is named by a string where it stands - inside the generic for the typing /
        # builtin constructors, the whole annotation for the PEP 604 spellings (a str has no `|`)
        q = repr(target)
        return {
            "direct": q,
            "optional": f"typing.Optional[{q}]",
            "list": f"list[{q}]",
            "dict": f"dict[str, {q}]",
            "tuplevar": f"tuple[{q}, ...]",
            "pipe": repr(f"{target} | None"),
            "nonefirst": repr(f"None | {target}"),
            "unionnone": f"typing.Union[None, {q}]",
        }[kind]
    return {
        "direct": target,
        "optional": f"typing.Optional[{target}]",
        "list": f"list[{target}]",
        "dict": f"dict[str, {target}]",
        "tuplevar": f"tuple[{target}, ...]",
        "pipe": f"{target} | None",
        "nonefirst": f"None | {target}",                # None declared first, PEP 604 spelling
        "unionnone": f"typing.Union[None, {target}]",   # None declared first, typing spelling
    }[kind]


class Topology:
    def __init__(self, n, edges, nested=False, flavour="dataclass", tag="", payload=True, other=None, foreign_edges=(), style="postponed",
                 wrapped_edges=None):
        """edges: list of (i, j, kind). `other`: an already built Topology whose (same-named) classes are reached through
        foreign_edges [(i, j, kind)] as `<other module>.Cj`."""
        _COUNTER[0] += 1
        self.n, self.edges, self.nested, self.flavour, self.payload = n, edges, nested, flavour, payload
        self.name = f"vtopo_{_COUNTER[0]}_{tag}"
        self.module = None
        self.other, self.foreign_edges = other, list(foreign_edges)
        # "postponed": `from __future__ import annotations`, every hint a string; "quoted": evaluated annotations, classes of this
        # module named by string literals inside the annotation (classes of the other, already imported module by the object)
        self.style = style
        # {(a, b, kind): "newtype" | "alias"}: the edge names its target through a wrapper that is defined AFTER the classes
        #   (`RN1 = typing.NewType("RN1", C1)`): the way back into a cycle leads through a wrapper
        self.wrapped_edges = dict(wrapped_edges or {})
        STYLE_COUNTS["topologies_" + style] = STYLE_COUNTS.get("topologies_" + style, 0) + 1

    def cname(self, i):
        return f"Outer.C{i}" if self.nested else f"C{i}"

    @property
    def source(self):
        quoted = self.style == "quoted"
        lines = ["import dataclasses, typing", ""] if quoted else ["from __future__ import annotations", "import dataclasses, typing", ""]
        if self.other is not None:
            lines.insert(len(lines) - 1, f"import {self.other.name}")
        ind = "    " if self.nested else ""
        if self.nested:
            lines.append("class Outer:")
        for i in range(self.n):
            if self.flavour == "dataclass":
                lines.append(f"{ind}@dataclasses.dataclass")
                lines.append(f"{ind}class C{i}:")
            elif self.flavour == "namedtuple":
                lines.append(f"{ind}class C{i}(typing.NamedTuple):")
            else:
                lines.append(f"{ind}class C{i}(typing.TypedDict, total=False):")
            body = []
            if self.payload:
                body.append(f"{ind}    v: int")
            for (a, b, kind) in self.edges:
                if a == i:
                    w = self.wrapped_edges.get((a, b, kind))
                    target = self.cname(b) if w is None else ("RN" if w == "newtype" else "RA") + str(b)
                    body.append(f"{ind}    e{b}_{kind}: {ann(kind, target, quoted)}")
            for (a, b, kind) in self.foreign_edges:
                if a == i:
                    body.append(f"{ind}    x{b}_{kind}: {ann(kind, self.other.name + '.' + self.other.cname(b))}")
            if not body:
                body.append(f"{ind}    v: int")
            lines.extend(body)
            lines.append("")
        for b in sorted({b_ for (_, b_, _), w_ in self.wrapped_edges.items() if w_ == "newtype"}):
            lines.append(f"RN{b} = typing.NewType('RN{b}', {self.cname(b)})")
        for b in sorted({b_ for (_, b_, _), w_ in self.wrapped_edges.items() if w_ == "alias"}):
            lines.append(f"RA{b} = typing.TypeAliasType('RA{b}', {self.cname(b)})")
        return "\n".join(lines) + "\n"

    def build(self):
        mod = types.ModuleType(self.name)
        mod.__file__ = f"/verif/out/generated/{self.name}.py"
        sys.modules[self.name] = mod
        exec(compile(self.source, mod.__file__, "exec", dont_inherit=True), mod.__dict__)
        self.module = mod
        return mod

    def cls(self, i):
        return getattr(self.module.Outer, f"C{i}") if self.nested else getattr(self.module, f"C{i}")

    def ev(self, src):
        return eval(src, {**self.module.__dict__, "typing": __import__("typing")})

    def roots(self):
        out = []
        for i in range(self.n):
            c = self.cname(i)
            out.append((c, self.cls(i)))
            for kind in CLOSING_KINDS:
                out.append((ann(kind, c), self.ev(ann(kind, c))))
        return out

    def drop(self):
        sys.modules.pop(self.name, None)

    # finite values -------------------------------------------------------------------------
    def value(self, i, depth, rng, branching=2):
        """A value of class i nested to `depth` levels (0 = all closing edges empty). Only valid when every
        cycle holds a closing edge (the direct-only subgraph is acyclic)."""
        cls = self.cls(i)
        kw = {"v": rng.randrange(-5, 100)} if (self.payload or not any(a == i for a, _, _ in self.edges)) else {}
        mine = [e for e in self.edges if e[0] == i]
        # deep values follow ONE spine edge per level (the others are closed), so size stays linear in depth
        spine = rng.choice(mine) if mine and depth > 3 else None
        for (a, b, kind) in mine:
            name = f"e{b}_{kind}"
            if depth <= 0 or (spine is not None and (a, b, kind) != spine):
                sub = None
            else:
                sub = lambda: self.value(b, depth - 1, rng, branching if depth <= 3 else 1)  # noqa: E731
            if kind == "direct":
                # a direct edge cannot be left empty: below the requested depth it carries a minimal value of its target
                # (finite because the direct-only subgraph is acyclic, see closing_kinds_with_direct)
                kw[name] = sub() if sub else self.value(b, 0, rng, 1)
            elif kind in ("optional", "pipe", "nonefirst", "unionnone"):
                kw[name] = sub() if sub else None
            elif kind == "list":
                kw[name] = [sub() for _ in range(rng.randrange(1, branching + 1))] if sub else []
            elif kind == "dict":
                kw[name] = {f"k{j}": sub() for j in range(rng.randrange(1, branching + 1))} if sub else {}
            elif kind == "tuplevar":
                kw[name] = tuple(sub() for _ in range(rng.randrange(1, branching + 1))) if sub else ()
            else:
                raise ValueError("direct edges have no finite closing value")
        if self.flavour == "typeddict":
            return dict(kw)
        return cls(**kw)


def closing_kinds_with_direct(rng, es, direct_prob=0.3):
    """Edge kinds for the edge set `es` such that finite values exist: some edges become direct (`x: C`), but never a whole
    cycle of them."""
    kinds = {}
    direct = set()

    def reaches(src, dst):
        seen, todo = set(), [src]
        while todo:
            x = todo.pop()
            if x == dst:
                return True
            if x in seen:
                continue
            seen.add(x)
            todo.extend(b for (a, b) in direct if a == x)
        return False

    for (a, b) in es:
        if a != b and rng.random() < direct_prob and not reaches(b, a):
            direct.add((a, b))
            kinds[(a, b)] = "direct"
        else:
            kinds[(a, b)] = rng.choice(CLOSING_KINDS)
    return [(a, b, kinds[(a, b)]) for a, b in es]


def all_edge_sets(n, self_loops=True):
    pairs = [(i, j) for i in range(n) for j in range(n) if self_loops or i != j]
    for r in range(len(pairs) + 1):
        for combo in itertools.combinations(pairs, r):
            yield list(combo)
