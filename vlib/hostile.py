"""Hostile input pool X (DESIGN.md §3.4): arbitrary objects, text in every carrier, wrong shapes,
and systematic corruption of valid wire forms."""
from __future__ import annotations

import collections
import dataclasses
import datetime
import decimal
import fractions
import json
import uuid


class Unrelated:
    def __init__(self):
        self.a = 1
        self.b = "x"


class UnrelatedSlots:
    __slots__ = ("a", "b")

    def __init__(self):
        self.a = 1
        self.b = "x"


class NoAttrs:
    __slots__ = ()


@dataclasses.dataclass
class Sibling:
    f0: int = 1
    f1: str = "s"
    x: float = 1.5
    val: int = 3
    next: object = None


class SibNT(collections.namedtuple("SibNT", "f0 f1")):
    pass


def _gen():
    yield 1
    yield 2


STATIC = [
    None, True, False, 0, 1, -1, 7, 2**63, -(2**70), 10**40, 0.0, -0.0, 1.5, -2.25, 1e308, float("nan"), float("inf"),
    float("-inf"), "", "a", "ab", "1", "1.0", "-7", "null", "None", "true", "false", "[1]", "[1, 2]", '{"a":1}', "1,2",
    "2020-01-01", "2020-01-01T00:00:00+00:00", "12:30:00", "PT1S", "P1D", "-P1D", "é", "\x00", "{", "[", "()", "nan",
    '["a","b"]', '{"f0": 1, "f1": "x"}', "[[1, 2], [3, 4]]", "(1, 2)", "{1, 2}", "{'a': 1}", "1e5", "0x10", "1_000",
    "00000000-0000-0000-0000-000000000001", "a/b", " 1 ", "[1,2", '{"a":', "퟿",
    "{1: 2}", "{None: 1, True: 2}", "{(1, 2): ['3']}", b"{1: '2', 2.5: 3}", "{1: {2: 3}}", "{1.5: [1]}", "[(1, 2)]", "{'a': {1: 'x'}}", "((1, 2), (3, 4))",
    b"", b"1", b"abc", b"[1,2]", b'{"a": 1}', b"\xff\xfe", b"\xff", "é".encode("latin-1"), "ab".encode("utf-16"),
    bytearray(b"1"), bytearray(b"[1]"), memoryview(b"1"), memoryview(b"abc"), memoryview(bytearray(b"[1,2]")),
    [], [1], [1, 2], ["a", "b"], [[1, 2]], [[1, 2], [3, 4]], [("a", 1)], [["k", "v"]], [1, "a", None], [[]], [None],
    (), (1,), (1, 2), ("a", "b"), ((1, 2),), set(), {1, 2}, frozenset({"a"}), collections.deque([1, 2]),
    {}, {"a": 1}, {"f0": 1, "f1": "x"}, {1: 2}, {"a": {"b": 1}}, {"a": [1, 2]}, {None: None}, {"val": 1, "next": None},
    collections.OrderedDict(a=1), {"f0": "1", "f1": 2, "x": "3", "y": [1], "val": "7", "id": "5", "data": {}, "name": "n",
                                   "value": "2", "kind": "k", "items_": [], "key": "k", "f2": 1, "f3": None, "next": None, "tag": "t"},
    datetime.date(2020, 1, 1), datetime.datetime(2020, 1, 1, tzinfo=datetime.timezone.utc), datetime.datetime(2020, 1, 1),
    datetime.time(1, 2, 3), datetime.time(1, 2, 3, tzinfo=datetime.timezone.utc), datetime.timedelta(seconds=5),
    decimal.Decimal("1.5"), decimal.Decimal("NaN"), fractions.Fraction(1, 3), uuid.UUID(int=5), 1 + 2j,
    object, int, len, Ellipsis, NotImplemented,
]


def fresh(rng):
    """Objects that must be created per use (one-shot iterators, mutable instances)."""
    return rng.choice([
        lambda: iter([1, 2]), lambda: iter([]), lambda: _gen(), lambda: iter([("a", 1), ("b", 2)]),
        lambda: (x for x in ["a", "b"]), lambda: Unrelated(), lambda: UnrelatedSlots(), lambda: NoAttrs(),
        lambda: Sibling(), lambda: SibNT(1, "x"), lambda: object(), lambda: range(3), lambda: {"a": 1}.items(),
        lambda: map(str, [1, 2]), lambda: zip("ab", [1, 2]),
    ])()


def pool_item(rng):
    if rng.random() < 0.2:
        return fresh(rng)
    return rng.choice(STATIC)


def _paths(w, path=()):
    yield path, w
    if isinstance(w, list):
        for i, e in enumerate(w):
            yield from _paths(e, path + (i,))
    elif isinstance(w, dict):
        for k, e in w.items():
            yield from _paths(e, path + (k,))


def _replace(w, path, fn):
    if not path:
        return fn(w)
    if isinstance(w, list):
        out = list(w)
        out[path[0]] = _replace(w[path[0]], path[1:], fn)
        return out
    out = dict(w)
    out[path[0]] = _replace(w[path[0]], path[1:], fn)
    return out


_DROP = object()


def corruptions(wire, rng, limit=24, other_wires=()):
    """Systematically corrupted variants of a valid (JSON-plain) wire form."""
    out = []
    nodes = list(_paths(wire))
    rng.shuffle(nodes)
    for path, node in nodes[:10]:
        muts = []
        if isinstance(node, dict):
            keys = list(node)
            if keys:
                k = rng.choice(keys)
                muts.append(lambda n, k=k: {a: b for a, b in n.items() if a != k})  # drop field
                muts.append(lambda n, k=k: {(str(a) + "_x" if a == k else a): b for a, b in n.items()})  # rename
                muts.append(lambda n, k=k: {a: ([b] if a == k else b) for a, b in n.items()})  # retype (wrap)
                muts.append(lambda n, k=k: {a: (None if a == k else b) for a, b in n.items()})
                muts.append(lambda n, k=k: {a: ("zzz" if a == k else b) for a, b in n.items()})
            muts.append(lambda n: repr({i: e for i, e in enumerate(n.values())}))  # python-literal text with non-text keys
            muts.append(lambda n: repr({(None if i == 0 else i * 1.5): e for i, e in enumerate(n.values())}).encode())
            muts.append(lambda n: {i: e for i, e in enumerate(n.values())})  # non-text keys, as a dict
            muts.append(lambda n: list(n.items()))  # item list
            muts.append(lambda n: [list(p) for p in n.items()])
            muts.append(lambda n: {**n, "extra_key": 1})
            muts.append(lambda n: list(n.values()))
        elif isinstance(node, list):
            muts.append(lambda n: n[:-1])  # drop element
            muts.append(lambda n: n + [None])
            muts.append(lambda n: n + n[:1])  # duplicate
            muts.append(lambda n: [n])  # nest deeper
            muts.append(lambda n: n[0] if n else 0)  # unwrap
            muts.append(lambda n: list(reversed(n)))
            muts.append(lambda n: tuple(n))
            muts.append(lambda n: {str(i): e for i, e in enumerate(n)})
            muts.append(lambda n: dict(enumerate(n)))
        else:
            muts.append(lambda n: [n])
            muts.append(lambda n: {"a": n})
            muts.append(lambda n: None)
            muts.append(lambda n: str(n))
            muts.append(lambda n: "x" + str(n))
            muts.append(lambda n: 10**25)
            muts.append(lambda n: -1.5)
            muts.append(lambda n: True)
            muts.append(lambda n: [])
            muts.append(lambda n: {})
        if other_wires:
            ow = rng.choice(other_wires)
            muts.append(lambda n, ow=ow: ow)
        for fn in rng.sample(muts, min(3, len(muts))):
            try:
                out.append(_replace(wire, path, fn))
            except Exception:  # noqa: BLE001
                pass
        # stringified node
        try:
            out.append(_replace(wire, path, lambda n: json.dumps(n)))
            out.append(_replace(wire, path, lambda n: repr(n)))
        except Exception:  # noqa: BLE001
            pass
        if len(out) >= limit:
            break
    try:
        txt = json.dumps(wire)
        out.extend([txt, txt.encode(), txt[: len(txt) // 2], repr(wire), bytearray(txt.encode())])
    except Exception:  # noqa: BLE001
        pass
    rng.shuffle(out)
    return out[:limit]
