"""Monitors riding on the repository's OWN test-suite (a second, independent workload: the maintainers' inputs).

The repository's tests assert their own expectations; here the same executions are additionally watched by oracles that the
tests do not contain (plain-JSON output, graph clauses, idempotence, determinism).  The tests are run in-process with pytest
from $VERIF_REPO/tests while the library's boundary functions are wrapped.  References bound before wrapping would bypass a
monitor, therefore every monitor counts its evaluations and the owning check puts a floor on that counter (zero observations
= inconclusive, never "held").

Only spec-free oracles are used here (nothing knows the harness's universe): they are deliberately weaker than the checks'
own workloads and never stricter than the property.
"""
from __future__ import annotations

import contextlib
import functools
import os
import sys
import typing

from vlib.oracles import canon, json_plain, short

_BYTESLIKE = (bytes, bytearray, memoryview)


def _repo():
    return os.environ.get("VERIF_REPO", "/repo")


def type_profile(t):
    """('fully annotated, bytes-free', 'union-free') for the annotation t, judged with typing only (no typelib)."""
    seen = set()
    full, union_free = True, True

    def walk(x, depth=0):
        nonlocal full, union_free
        if depth > 12 or id(x) in seen:
            return
        seen.add(id(x))
        if x is typing.Any or x is object or isinstance(x, (typing.TypeVar, str, typing.ForwardRef)) or x is Ellipsis:
            if x is not Ellipsis:
                full = False
            return
        if hasattr(x, "__supertype__"):
            return walk(x.__supertype__, depth + 1)
        if isinstance(x, typing.TypeAliasType):
            try:
                return walk(x.__value__, depth + 1)
            except Exception:  # noqa: BLE001
                full = False
                return
        o = typing.get_origin(x)
        if o in (typing.Union, __import__("types").UnionType):
            union_free = False
        if o is typing.Literal:
            return
        if o is None and isinstance(x, type):
            if issubclass(x, _BYTESLIKE):
                full = False
            if x in (list, dict, tuple, set, frozenset) or x.__module__ in ("collections", "collections.abc", "typing"):
                full = False  # unparameterised container: contents pass through by contract
            try:
                hints = typing.get_type_hints(x)
            except Exception:  # noqa: BLE001
                hints = {}
                if getattr(x, "__annotations__", None):
                    full = False
            for h in hints.values():
                walk(h, depth + 1)
            return
        if o is not None and not typing.get_args(x):
            full = False
        for a in typing.get_args(x):
            if isinstance(a, (list, tuple)):
                for b in a:
                    walk(b, depth + 1)
            else:
                walk(a, depth + 1)

    try:
        walk(t)
    except Exception:  # noqa: BLE001
        return False, False
    return full, union_free


class Monitors:
    """Wraps typelib's boundary functions; violations and counters go to the shard log."""

    def __init__(self, sh, which):
        self.sh, self.which = sh, set(which)
        self._undo = []
        self._busy = False

    # ---- installation ---------------------------------------------------------------------------------------------
    def _patch(self, obj, name, make):
        orig = getattr(obj, name)
        setattr(obj, name, make(orig))
        self._undo.append((obj, name, orig))

    def install(self):
        import typelib
        import typelib.api
        from typelib import graph
        from typelib.marshals import api as mapi
        from typelib.unmarshals import api as uapi
        import typelib.marshals
        import typelib.unmarshals

        if self.which & {"marshal", "determinism"}:
            for mod in (mapi, typelib.marshals, typelib.api, typelib):
                if hasattr(mod, "marshal"):
                    self._patch(mod, "marshal", self._wrap_marshal)
        if self.which & {"idempotence", "determinism"}:
            for mod in (uapi, typelib.unmarshals, typelib.api, typelib):
                if hasattr(mod, "unmarshal"):
                    self._patch(mod, "unmarshal", self._wrap_unmarshal)
        if "graph" in self.which:
            self._patch(graph, "static_order", self._wrap_static_order)
        # the routine objects themselves (the suite's test_routines modules call them directly)
        import inspect as _inspect

        from typelib.marshals import routines as mroutines
        from typelib.unmarshals import routines as uroutines

        if "marshal" in self.which:
            for cls in list(vars(mroutines).values()):
                if _inspect.isclass(cls) and issubclass(cls, mroutines.AbstractMarshaller) and "__call__" in vars(cls) and not _inspect.isabstract(cls):
                    self._patch(cls, "__call__", self._wrap_marshaller_call)
        if "idempotence" in self.which:
            for cls in list(vars(uroutines).values()):
                if _inspect.isclass(cls) and issubclass(cls, uroutines.AbstractUnmarshaller) and "__call__" in vars(cls) and not _inspect.isabstract(cls):
                    self._patch(cls, "__call__", self._wrap_unmarshaller_call)
        return self

    def _wrap_marshaller_call(self, orig):
        mon = self

        @functools.wraps(orig)
        def __call__(routine, val):
            out = orig(routine, val)
            if mon._busy:
                return out
            mon._busy = True
            try:
                mon.sh.count("suite_marshaller_calls_observed")
                T = getattr(routine, "t", None)
                if T is not None and type_profile(T)[0]:
                    mon.sh.count("suite_marshal_outputs_judged")
                    ok, why = json_plain(out)
                    if not ok:
                        mon.sh.violation("suite-marshal-not-plain", type_src=short(T, 120), value=short(val, 200), where=why, output=short(out, 200),
                                         routine=type(routine).__name__)
            finally:
                mon._busy = False
            return out

        return __call__

    def _wrap_unmarshaller_call(self, orig):
        mon = self

        @functools.wraps(orig)
        def __call__(routine, val):
            out = orig(routine, val)
            if mon._busy or hasattr(val, "__next__"):
                return out
            mon._busy = True
            try:
                mon.sh.count("suite_unmarshaller_calls_observed")
                T = getattr(routine, "t", None)
                if T is not None and not isinstance(T, (str, typing.ForwardRef)):
                    full, union_free = type_profile(T)
                    if full and union_free:
                        mon.sh.count("suite_unmarshal_idempotence_judged")
                        try:
                            again = orig(routine, out)
                            if canon(again, strict=True) != canon(out, strict=True):
                                mon.sh.violation("suite-unmarshal-not-idempotent", type_src=short(T, 120), input=short(val, 200), first=short(out, 200),
                                                 second=short(again, 200), routine=type(routine).__name__)
                        except Exception as e:  # noqa: BLE001
                            mon.sh.violation("suite-unmarshal-not-idempotent", type_src=short(T, 120), input=short(val, 200), first=short(out, 200),
                                             second=f"raised {type(e).__name__}: {e}"[:160], routine=type(routine).__name__)
            finally:
                mon._busy = False
            return out

        return __call__

    def uninstall(self):
        for obj, name, orig in reversed(self._undo):
            setattr(obj, name, orig)
        self._undo.clear()

    # ---- marshal: C06 clauses that need no spec ----------------------------------------------------------------------
    def _wrap_marshal(self, orig):
        @functools.wraps(orig)
        def marshal(value, *, t=None):
            if self._busy:
                return orig(value, t=t)
            T = value.__class__ if t is None else t
            try:
                before = canon(value, strict=True)
            except Exception:  # noqa: BLE001
                before = None
            out = orig(value, t=t)
            self._busy = True
            try:
                sh = self.sh
                sh.count("suite_marshal_calls_observed")
                full, _ = type_profile(T)
                if full:
                    if "marshal" in self.which:
                        sh.count("suite_marshal_outputs_judged")
                        ok, why = json_plain(out)
                        if not ok:
                            sh.violation("suite-marshal-not-plain", type_src=short(T, 120), value=short(value, 200), where=why, output=short(out, 200))
                    sh.count("suite_marshal_repeats_judged")
                    try:
                        again = orig(value, t=t)
                        if canon(again, strict=True) != canon(out, strict=True):
                            sh.violation("suite-marshal-not-deterministic", type_src=short(T, 120), value=short(value, 200), first=short(out, 200), second=short(again, 200))
                    except Exception as e:  # noqa: BLE001
                        sh.violation("suite-marshal-not-deterministic", type_src=short(T, 120), value=short(value, 200), first=short(out, 200), second=f"raised {type(e).__name__}")
                if before is not None and "marshal" in self.which:
                    try:
                        if canon(value, strict=True) != before:
                            sh.violation("suite-marshal-mutated-input", type_src=short(T, 120), value=short(value, 200))
                    except Exception:  # noqa: BLE001
                        pass
            finally:
                self._busy = False
            return out

        return marshal

    # ---- unmarshal: idempotence (C13) and determinism (C12) ------------------------------------------------------------
    def _wrap_unmarshal(self, orig):
        @functools.wraps(orig)
        def unmarshal(t, value):
            if self._busy or hasattr(value, "__next__"):
                return orig(t, value)
            out = orig(t, value)
            self._busy = True
            try:
                sh = self.sh
                sh.count("suite_unmarshal_calls_observed")
                full, union_free = type_profile(t)
                if "idempotence" in self.which and full and union_free and not isinstance(t, (str, typing.ForwardRef)):
                    sh.count("suite_unmarshal_idempotence_judged")
                    try:
                        again = orig(t, out)
                        if canon(again, strict=True) != canon(out, strict=True):
                            sh.violation("suite-unmarshal-not-idempotent", type_src=short(t, 120), input=short(value, 200), first=short(out, 200), second=short(again, 200))
                    except Exception as e:  # noqa: BLE001
                        sh.violation("suite-unmarshal-not-idempotent", type_src=short(t, 120), input=short(value, 200), first=short(out, 200), second=f"raised {type(e).__name__}: {e}"[:160])
                try:
                    if "determinism" not in self.which:
                        return out
                    twin = orig(t, value)
                    sh.count("suite_unmarshal_determinism_judged")
                    if canon(twin, strict=True) != canon(out, strict=True):
                        sh.violation("suite-unmarshal-not-deterministic", type_src=short(t, 120), input=short(value, 200), first=short(out, 200), second=short(twin, 200))
                except Exception as e:  # noqa: BLE001
                    sh.violation("suite-unmarshal-not-deterministic", type_src=short(t, 120), input=short(value, 200), first=short(out, 200), second=f"raised {type(e).__name__}")
            finally:
                self._busy = False
            return out

        return unmarshal

    # ---- graph: the C09 clauses on every graph the suite builds ------------------------------------------------------
    def _wrap_static_order(self, orig):
        from typelib.py import refs

        from vlib import graphspec

        @functools.wraps(orig)
        def static_order(t):
            nodes = orig(t)
            if self._busy:
                return nodes
            self._busy = True
            try:
                root = t
                if isinstance(root, (str, typing.ForwardRef)):
                    return nodes  # reference roots: the check's own workload covers them with a known caller module
                self.sh.count("suite_graphs_judged")
                seq = list(nodes)
                for clause, detail in graphspec.check_sequence(root, seq, refs.evaluate):
                    self.sh.violation("suite-graph-" + clause, root=short(root, 160), detail=detail[:400], nodes=short([repr(n) for n in seq], 600))
                return seq if not isinstance(nodes, (list, tuple)) else nodes
            finally:
                self._busy = False

        if hasattr(orig, "cache_clear"):
            static_order.cache_clear = orig.cache_clear
        return static_order


def run_repo_suite(sh, which, select=()):
    """Runs $VERIF_REPO/tests in this process under the monitors in `which`. Returns pytest's outcome counts."""
    import pytest

    repo = _repo()
    if not os.path.isdir(os.path.join(repo, "tests")):
        repo = "/repo"  # a scratch copy that only carries src/: the (unedited) tests of the repository itself drive it
    counts = {"passed": 0, "failed": 0, "skipped": 0}

    class Tally:
        def pytest_runtest_logreport(self, report):
            if report.when == "call" or (report.when == "setup" and report.outcome != "passed"):
                counts[report.outcome] = counts.get(report.outcome, 0) + 1

    mons = Monitors(sh, which).install()
    cwd = os.getcwd()
    try:
        os.chdir(repo)
        args = ["-q", "-p", "no:cacheprovider", "--rootdir", repo, "-W", "ignore", "--no-header", "-x" if False else "-q"]
        args += [os.path.join(repo, s) for s in (select or ("tests",))]
        with open(os.devnull, "w") as devnull, contextlib.redirect_stdout(devnull), contextlib.redirect_stderr(devnull):
            rc = pytest.main(args, plugins=[Tally()])
    finally:
        os.chdir(cwd)
        mons.uninstall()
    sh.count("suite_tests_passed", counts["passed"])
    sh.count("suite_tests_failed", counts["failed"])
    counts["rc"] = int(rc)
    # the suite leaves its modules (tests.*) in sys.modules; drop them so later cases start from the same state
    for m in [m for m in sys.modules if m == "tests" or m.startswith("tests.")]:
        sys.modules.pop(m, None)
    return counts
