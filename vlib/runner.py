"""Runner: shards one property's check over worker processes, merges their logs,
classifies witnesses against known_findings.json, writes evidence, prints the verdict.

Verdicts: exit 0 held / 1 violated (VIOLATION line) / 2 inconclusive (INCONCLUSIVE line).
"""
from __future__ import annotations

import importlib
import json
import os
import pathlib
import subprocess
import sys
import tempfile
import time

ROOT = pathlib.Path(__file__).resolve().parent.parent
NCPU = min(16, os.cpu_count() or 4)


def _usage():
    print("usage: ./check <Cnn> [quick|thorough] [--replay <file>]")
    return 2


def load_known():
    p = ROOT / "known_findings.json"
    if not p.exists():
        return []
    return json.loads(p.read_text())["findings"]


def main(argv=None):
    argv = list(sys.argv[1:] if argv is None else argv)
    if not argv:
        return _usage()
    prop = argv.pop(0).upper()
    tier = os.environ.get("VERIF_TIER", "quick")
    replay = None
    while argv:
        a = argv.pop(0)
        if a in ("quick", "thorough"):
            tier = a
        elif a == "--replay":
            replay = argv.pop(0)
        else:
            return _usage()
    seed = int(os.environ.get("VERIF_SEED", "0") or 0)
    mod = importlib.import_module(f"checks.{prop.lower()}")
    t0 = time.time()

    if replay is not None:
        rec = json.loads(pathlib.Path(replay).read_text())
        seed = rec.get("seed", seed)
        tier = rec.get("tier", tier)
        shards = [rec["shard"]]
        nshards = rec["nshards"]
        only = rec.get("case")
    else:
        nshards = getattr(mod, "NSHARDS", {}).get(tier, NCPU)
        shards = list(range(nshards))
        only = None

    tmp = pathlib.Path(tempfile.mkdtemp(prefix=f"verif_{prop}_"))
    procs = []
    env = dict(os.environ)
    env["PYTHONHASHSEED"] = "0"
    env["PYTHONDONTWRITEBYTECODE"] = "1"
    watchdog = getattr(mod, "WATCHDOG_S", {}).get(tier, 900 if tier == "quick" else 5400)
    try:
        maxpar = getattr(mod, "MAXPAR", NCPU)
        pending = list(shards)
        running = []
        results = {}
        inconclusive = []
        while pending or running:
            while pending and len(running) < maxpar:
                sh = pending.pop(0)
                out = tmp / f"shard{sh}.json"
                cmd = [sys.executable, "-B", "-m", "vlib.worker", prop, tier, str(seed), str(sh), str(nshards), str(out)]
                if only is not None:
                    cmd.append(str(only))
                logf = open(tmp / f"shard{sh}.log", "wb")
                p = subprocess.Popen(cmd, cwd=str(ROOT), env=env, stdout=logf, stderr=subprocess.STDOUT)
                running.append((sh, p, out, logf, time.time()))
            time.sleep(0.05)
            still = []
            for sh, p, out, logf, st in running:
                rc = p.poll()
                if rc is None:
                    if time.time() - st > watchdog:
                        p.kill()
                        p.wait()
                        logf.close()
                        inconclusive.append(f"shard {sh}: wall-clock watchdog ({watchdog}s)")
                    else:
                        still.append((sh, p, out, logf, st))
                    continue
                logf.close()
                if rc != 0 or not out.exists():
                    try:
                        tail = (tmp / f"shard{sh}.log").read_bytes()[-1500:].decode("utf8", "replace")
                    except OSError as e:  # the scratch directory was removed under the run
                        tail = f"<shard log unreadable: {e}>"
                    inconclusive.append(f"shard {sh}: worker exit {rc}: {tail}")
                else:
                    results[sh] = json.loads(out.read_text())
            running = still
        return finish(prop, tier, seed, nshards, mod, results, inconclusive, t0, replay is not None)
    finally:
        import shutil

        shutil.rmtree(tmp, ignore_errors=True)


def finish(prop, tier, seed, nshards, mod, results, inconclusive, t0, is_replay):
    from vlib import findings

    known = [k for k in load_known() if prop in k["properties"]]
    evaluations = 0
    keys = set()
    counters: dict[str, int] = {}
    sets: dict[str, set] = {}
    samples = []
    violations = []
    canaries = {}
    for sh in sorted(results):
        r = results[sh]
        evaluations += r["evaluations"]
        keys.update(r["keys"])
        for k, v in r["counters"].items():
            counters[k] = counters.get(k, 0) + v
        for k, v in r["sets"].items():
            sets.setdefault(k, set()).update(v)
        if len(samples) < 12:
            samples.extend(r["samples"][: max(1, 12 // max(1, len(results)))])
        violations.extend(r["violations"])
        for k, v in r["canaries"].items():
            canaries[k] = canaries.get(k, True) and v
        for m in r.get("inconclusive", []):
            inconclusive.append(f"shard {sh}: {m}")

    # classification
    known_hits: dict[str, int] = {}
    known_examples: dict[str, dict] = {}
    unknown = []
    for v in violations:
        key = findings.classify(prop, v, known)
        if key is None:
            unknown.append(v)
        else:
            known_hits[key] = known_hits.get(key, 0) + 1
            known_examples.setdefault(key, v)

    # floors
    floors = getattr(mod, "FLOORS", {}).get(tier, {}) if not is_replay else {}
    for name, floor in floors.items():
        got = counters[name] if name in counters else len(sets.get(name, ()))
        if got < floor:
            inconclusive.append(f"monitor '{name}' observed {got} < floor {floor}")
    # a workload that synthesises modules must have run them under BOTH annotation styles (evaluated and postponed, PEP 563)
    styles = ("modules_evaluated_annotations", "modules_postponed_annotations")
    if not is_replay and any(k in counters for k in styles) and sum(counters.get(k, 0) for k in styles) >= 20:
        for k in styles:
            if counters.get(k, 0) == 0:
                inconclusive.append(f"no generated module ran under '{k}'")
    for name, ok in canaries.items():
        if not ok:
            inconclusive.append(f"canary '{name}' did not fire")
    if not canaries and not is_replay:
        inconclusive.append("no canaries ran")

    wall = time.time() - t0
    outdir = ROOT / "out" / "replays" / prop
    replay_paths = []
    if outdir.exists() and not is_replay:
        for old in outdir.glob(f"{tier}-seed{seed}-*.json"):
            old.unlink(missing_ok=True)
    if unknown:
        outdir.mkdir(parents=True, exist_ok=True)
        for i, v in enumerate(unknown[:20]):
            p = outdir / f"{tier}-seed{seed}-{i}.json"
            v2 = dict(v)
            v2.update(property=prop, tier=tier, seed=seed, nshards=nshards)
            p.write_text(json.dumps(v2, indent=1, default=str))
            replay_paths.append(str(p))

    if not is_replay and not os.environ.get("VERIF_NO_EVIDENCE"):
        ev = {
            "property_id": prop,
            "tier": tier,
            "seed": seed,
            "level": getattr(mod, "LEVEL", "exploration"),
            "coverage": {
                "evaluations": evaluations,
                "distinct_nontrivial": len(keys),
                "rule": getattr(mod, "RULE", ""),
                "samples": samples[:12] or ["<none>"],
                "exhaustive": bool(getattr(mod, "EXHAUSTIVE", {}).get(tier, False)),
                "monitor_counters": dict(sorted(counters.items())),
                "observed_sets": {k: sorted(v)[:80] for k, v in sorted(sets.items())},
                "observed_set_sizes": {k: len(v) for k, v in sorted(sets.items())},
                "canaries": canaries,
                "known_finding_hits": known_hits,
                "inconclusive": inconclusive[:20],
                "shards": len(results),
                "unclassified_violations": len(unknown),
            },
            "assumptions": list(getattr(mod, "ASSUMPTIONS", [])),
            "wall_s": round(wall, 2),
            "violations": len(unknown),
        }
        (ROOT / "evidence").mkdir(exist_ok=True)
        (ROOT / "evidence" / f"{prop}.json").write_text(json.dumps(ev, indent=1, default=str) + "\n")

    print(f"[{prop}] tier={tier} seed={seed} shards={len(results)}/{nshards} evaluations={evaluations} "
          f"distinct={len(keys)} wall={wall:.1f}s")
    for k in sorted(counters):
        print(f"  counter {k} = {counters[k]}")
    for k in sorted(sets):
        print(f"  set {k}: {len(sets[k])} distinct")
    for k in known:
        if k["status"] == "open" and k["key"] in known_hits:
            print(f"KNOWN-FINDING: property={prop} {k['key']}: {k['what']} (hits={known_hits[k['key']]})")
    if unknown:
        seen = set()
        for v, p in zip(unknown, replay_paths):
            sig = v.get("kind", "") + "|" + str(v.get("pos_desc", "")) + "|" + str(v.get("exc", ""))
            if sig in seen or len(seen) >= 8:
                continue
            seen.add(sig)
            print(f"  witness: {json.dumps({k: v[k] for k in v if k not in ('module_src',)}, default=str)[:700]}")
        print(f"  ({len(unknown)} unclassified witnesses; kinds: {sorted({v.get('kind', '') for v in unknown})})")
        print(f"VIOLATION property={prop} replay={replay_paths[0]}")
        return 1
    if inconclusive:
        for m in inconclusive[:10]:
            print(f"INCONCLUSIVE property={prop} reason={m[:600]}")
        return 2
    print(f"[{prop}] HELD on everything observed")
    return 0


if __name__ == "__main__":
    sys.exit(main())
