"""Mechanism classifiers for known findings.

A violation record is matched to a known finding only through a narrow, mechanism-based
predicate registered here under the finding's key; never by case hash or random values.
Only findings with status "open" in known_findings.json suppress anything.
"""
from __future__ import annotations

CLASSIFIERS = {}


def classifier(key):
    def deco(fn):
        CLASSIFIERS[key] = fn
        return fn

    return deco


def classify(prop, v, known):
    for k in known:
        if k.get("status") != "open":
            continue
        fn = CLASSIFIERS.get(k["key"])
        if fn is None:
            continue
        try:
            if fn(prop, v):
                return k["key"]
        except Exception:
            continue
    return None


# ---- union leniency (C01 C02 C07 C08) -------------------------------------------------------

@classifier("union-marshal-lenient-member")
def _union_marshal_lenient(prop, v):
    """The union marshaller's first acceptor is a member the value is NOT an instance of (str()/isoformat()/cast
    based leaf marshallers accept foreign values), and the wire it emits is not read back."""
    return (v.get("pos_desc") == "union" and (v.get("m_owner") is False or v.get("y_m_owner") is False)
            and v.get("kind") in ("raised", "union-fixpoint-broken", "union-no-member-accepts-wire", "fixpoint-broken",
                                   "entrypoints-disagree", "decode-raised", "json-rejects", "not-plain", "aliases-input",
                                   "aliases-previous-result", "unstable", "marshal-raised"))


@classifier("union-unmarshal-lossy-acceptor")
def _union_unmarshal_lossy(prop, v):
    """The value was marshalled by its own member, but an EARLIER member's unmarshaller accepts that wire form and
    coerces it to something that member alone does not marshal back to the same wire (e.g. '1' -> time 00:00:01,
    date text -> datetime): the weak fixpoint law fails through the member's own lossy acceptance."""
    return (v.get("pos_desc") == "union" and v.get("kind") in ("union-fixpoint-broken", "fixpoint-broken")
            and v.get("m_owner") is True and v.get("um_reproduces") is False
            and v.get("um_member") not in (None, v.get("m_member")))


# ---- C04 -----------------------------------------------------------------------------------

@classifier("zero-duration-emitted-as-PT")
def _zero_pt(prop, v):
    """timedelta(0) is written as 'PT' (no component), which is not well-formed ISO-8601; tests/unit/test_codec.py pins it."""
    return v.get("kind") == "iso-not-wellformed" and v.get("text") == "PT" and v.get("value") == "datetime.timedelta(0)"


# ---- C14 -----------------------------------------------------------------------------------

@classifier("json-backend-reads-big-ints-as-floats")
def _bigint_backend(prop, v):
    """The default JSON backend (orjson) reads integers outside [-2^63, 2^64) as floats (or rejects them beyond
    1e308, after which load() falls back to literal_eval / the raw text): JSON text of a wire value holding such
    an int does not unmarshal like the value itself."""
    return v.get("kind") in ("text-differs-from-value", "load-json-differs") and v.get("big_int_in_wire") is True


# ---- D15: typing.Union equality ignores member order (C08, C12) ---------------------------------

PINNED_MEMOISED = frozenset("""origin normalize_typevar name qualname resolve_supertype safe_get_params isbuiltintype isstdlibtype isbuiltinsubtype
isstdlibsubtype isoptionaltype isuniontype isfinal isliteral isdatetype isdatetimetype istimetype istimedeltatype isdecimaltype isfractiontype
isuuidtype isiterabletype isiteratortype istupletype issequencetype iscollectiontype issubscriptedcollectiontype ismappingtype isenumtype
isclassvartype should_unwrap isfromdictclass isfrozendataclass istypeddict istypedtuple isnamedtuple isfixedtupletype istexttype isstringtype
isbytestype isnumbertype isintegertype isfloattype isstructuredtype isgeneric issubscriptedgeneric iscallable isunresolvable isnonetype
ispatterntype ispathtype istypealiastype unwrap""".split())  # the @compat.cache functions of py/inspection.py at the pinned commit


@classifier("union-permutation-served-from-cache")
def _union_perm(prop, v):
    """Union[A, B] == Union[B, A] and they hash alike, so every equality-keyed cache (routine, graph, predicates) serves
    the routine built for whichever spelling came first in the process."""
    if prop == "C17":
        # Optional[X] == X | None (and Union[A, B] == Union[B, A]): a memoised spelling-sensitive accessor answers for
        # whichever spelling came first, so its answer changes after cache_clear()
        # only the functions that ARE memoised on the pinned tree; another one showing this (e.g. a newly cached args()) is new
        if v.get("union_object") is not True:
            return False
        if v.get("kind") == "predicate-unstable":
            return v.get("predicate") in PINNED_MEMOISED
        return (v.get("kind") == "predicate-disagrees" and v.get("twin_warmed") is True
                and v.get("predicate") in ("origin", "name", "qualname", "isgeneric", "issubscriptedgeneric", "resolve_supertype", "unwrap"))
    if prop == "C15":
        # the first build of an annotation holding Union[A, B] was served the routine of an equal union in another member order
        # (built earlier in the process); after clearing the caches it gets its own order
        return v.get("kind") == "build-after-cache-clear-differs" and v.get("served_permutation") is True
    if v.get("pos_desc") == "union" and v.get("union_twin") is True and str(v.get("kind", "")).startswith("union-"):
        return True  # the same program holds an equal union with another member order
    return v.get("kind") in ("permutation-served-from-cache",) or (
        v.get("kind") == "history-dependent" and v.get("mechanism") == "union-permutation")


# ---- C11 -----------------------------------------------------------------------------------

@classifier("nested-bare-string-reference")
def _nested_strref(prop, v):
    """A bare string used as a generic argument OUTSIDE a class body (list['Name'], Optional['Name']) carries no
    module, so routine construction cannot evaluate it (NameError / TypeError); the same string in a class field
    (resolved by typing.get_type_hints) and ForwardRef(..., module=...) work."""
    chain = v.get("chain", "")
    last = chain.split("@")[0].split("+")[-1]
    pos = chain.split("@")[-1].split("(")[0]
    return (v.get("kind") in ("wrapped-does-not-build", "not-transparent") and last == "strref" and pos in ("coll", "mapval", "tuple", "union", "union_sibling", "pair"))


@classifier("typing-extensions-alias-unrecognised")
def _te_alias(prop, v):
    """inspection.istypealiastype tests compat.TypeAliasType only (typing.TypeAliasType on 3.12+); an alias built with a DISTINCT
    typing_extensions.TypeAliasType class is taken for an ordinary type and its routine raises (TypeError 'Type alias is not callable', AttributeError, ...) where the plain type converts; a wrapped
    routine that RETURNS something else is not covered by this finding."""
    return (v.get("kind") == "alias-spelling-not-transparent" and v.get("alias_class") == "typing_extensions.TypeAliasType"
            and v.get("distinct_from_typing") is True and str(v.get("plain", "")).startswith("('ok'")
            and str(v.get("wrapped", "")).startswith("('raised', "))  # TypeError / AttributeError / ... by what the alias object is mistaken for


@classifier("unqualified-string-reference-cached")
def _strref_cache(prop, v):
    """unmarshaller('Name') / _resolve_module_name are memoised on the bare string, so the same unqualified reference
    issued from a second module that defines its own 'Name' resolves to the first module's class."""
    return v.get("kind") == "history-dependent" and v.get("mechanism") == "string-ref-cache"
