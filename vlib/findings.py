"""Mechanism classifiers for known findings.

A violation record is matched to a known finding only through a narrow, mechanism-based
predicate registered here under the finding's key; never by case hash or random values.
Only findings with status "open" in known_findings.json suppress anything.
"""
from __future__ import annotations

CLASSIFIERS = {}


def classifier(key):
    def deco(fn):
        CLASSIFIERS[key] = fn
        return fn

    return deco


def classify(prop, v, known):
    for k in known:
        if k.get("status") != "open":
            continue
        fn = CLASSIFIERS.get(k["key"])
        if fn is None:
            continue
        try:
            if fn(prop, v):
                return k["key"]
        except Exception:
            continue
    return None
