"""Fork-per-operation executor: the same operation run alone in a process forked from a zygote that has imported
typelib and the synthesised modules but never called into the library (the sequential specification for C12)."""
from __future__ import annotations

import json
import os
import select
import signal
import time


def run_in_fork(fn, timeout=30.0):
    """Run fn() in a forked child; returns ('ok', json-decoded result) | ('died', reason)."""
    r, w = os.pipe()
    pid = os.fork()
    if pid == 0:
        try:
            os.close(r)
            signal.alarm(int(timeout) + 5)
            try:
                out = fn()
                data = json.dumps(["ok", out], default=str)
            except BaseException as e:  # noqa: BLE001
                data = json.dumps(["childerror", f"{type(e).__name__}: {e}"[:500]])
            with os.fdopen(w, "w") as f:
                f.write(data)
        finally:
            os._exit(0)
    os.close(w)
    chunks = []
    deadline = time.time() + timeout
    with os.fdopen(r, "rb", buffering=0) as f:
        while True:
            left = deadline - time.time()
            if left <= 0:
                break
            ready, _, _ = select.select([f], [], [], min(left, 1.0))
            if ready:
                b = f.read(1 << 16)
                if not b:
                    break
                chunks.append(b)
    try:
        # EOF on the pipe means the child is done writing; give it a moment to exit, then reap it
        t_end = time.time() + (5.0 if chunks else 0.0)
        done = 0
        while True:
            done, _ = os.waitpid(pid, os.WNOHANG)
            if done or time.time() >= t_end:
                break
            time.sleep(0.0005)
        if done == 0:
            os.kill(pid, signal.SIGKILL)
            os.waitpid(pid, 0)
            if not chunks:
                return ("died", "timeout")
    except ChildProcessError:
        pass
    raw = b"".join(chunks)
    if not raw:
        return ("died", "no output")
    try:
        tag, val = json.loads(raw)
    except ValueError:
        return ("died", "garbled output")
    return (tag, val)
