#!/usr/bin/env python3
"""Regenerates the §A.5 table of DESIGN.md from seeded/*/meta.json."""
import json
import pathlib
import re

ROOT = pathlib.Path(__file__).resolve().parent.parent
rows = []
for d in sorted((ROOT / "seeded").glob("*/")):
    m = d / "meta.json"
    if not m.exists():
        continue
    j = json.loads(m.read_text())
    rows.append(f"| `{d.name}` | {j['property']} | {(j.get('summary') or '').replace('|', '/')[:230]} | {(j.get('needs') or '').replace('|', '/')[:230]} | "
                f"{', '.join(j.get('checks', []) + j.get('also_caught_by', []))} | {(j.get('detection') or '').replace('|', '/')} |")
table = ("Each change was written by a sub-agent that saw only the property text and a scratch copy of the repository; each was confirmed\n"
         "independently (`tools/confirm_seed.sh`: demo passes on the clean tree, fails with the patch; the patched tree passes the repository's\n"
         "own tests) and is replayed by `tools/run_mutants.py seeded/<id>`. \"strengthened\" entries were MISSED by the workload as first built\n"
         "and led to the widening described in the last column.\n\n"
         "| seed | property | change | needs | caught by | detection history |\n|---|---|---|---|---|---|\n" + "\n".join(rows) + "\n")
p = ROOT / "DESIGN.md"
s = p.read_text()
start = s.index("### A.5 Seeded breakages")
end = s.index("---------------------------------------------------------------------------------------", start)
s = s[:start] + "### A.5 Seeded breakages\n\n" + table + "\n" + s[end:]
p.write_text(s)
print(len(rows), "rows")
