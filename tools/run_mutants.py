#!/usr/bin/env python3
"""Apply each mutant patch (mutants/<prop>__<name>.patch or seeded/<id>/patch.diff) to a scratch copy of /repo,
run the owning check's quick tier against the copy (VERIF_REPO), expect exit 1 (VIOLATION). The copy is removed
immediately. Usage: tools/run_mutants.py [filter-substring] [--tier quick|thorough] [--also C05,C07] [--prop C19] [-j N]"""
import json
import os
import pathlib
import shutil
import subprocess
import sys
import tempfile

ROOT = pathlib.Path(__file__).resolve().parent.parent


def main():
    args = sys.argv[1:]
    tier = "quick"
    also = []
    filt = None
    jobs = 1
    only_prop = None
    while args:
        a = args.pop(0)
        if a == "--tier":
            tier = args.pop(0)
        elif a == "--also":
            also = args.pop(0).split(",")
        elif a == "-j":
            jobs = int(args.pop(0))
        elif a == "--prop":
            only_prop = args.pop(0)
        else:
            filt = a
    items = []
    sys.path.insert(0, str(ROOT))
    from mutants.mutants import M

    for name, props, file, old, new in M:
        items.append((name, props, (file, old, new)))
    for d in sorted((ROOT / "seeded").glob("*/")):
        meta = d / "meta.json"
        if meta.exists() and (d / "patch.diff").exists():
            m = json.loads(meta.read_text())
            items.append((f"seeded/{d.name}", m.get("checks") or [m["property"]], d / "patch.diff"))
    results = []

    def run_item(item):
        name, props, patch = item
        out = []
        tmp = pathlib.Path(tempfile.mkdtemp(prefix="mut_"))
        try:
            shutil.copytree("/repo/src", tmp / "src")
            if isinstance(patch, tuple):
                file, old, new = patch
                fp = tmp / "src" / file
                text = fp.read_text()
                if text.count(old) != 1:
                    print(f"PATCH-FAILED {name}: old text found {text.count(old)} times", flush=True)
                    return [(name, "PATCH-FAILED", f"old text found {text.count(old)} times")]
                fp.write_text(text.replace(old, new))
            else:
                r = subprocess.run(["patch", "-p1", "-s", "-d", str(tmp), "-i", str(patch)], capture_output=True, text=True)
                if r.returncode != 0:
                    print(f"PATCH-FAILED {name}: {r.stdout}{r.stderr}"[:300], flush=True)
                    return [(name, "PATCH-FAILED", r.stdout + r.stderr)]
            for prop in list(props) + also:
                env = dict(os.environ, VERIF_REPO=str(tmp), VERIF_NO_EVIDENCE="1")
                r = subprocess.run([str(ROOT / "check"), prop, tier], capture_output=True, text=True, env=env, cwd=str(ROOT))
                tag = {0: "MISSED", 1: "CAUGHT", 2: "INCONCLUSIVE"}.get(r.returncode, f"exit{r.returncode}")
                if tag == "CAUGHT" and f"VIOLATION property={prop}" not in r.stdout:
                    tag = "ERROR"
                first = next((l for l in r.stdout.splitlines() if l.strip().startswith("witness")), "")[:300]
                out.append((f"{name} [{prop}]", tag, first))
                print(f"{tag:12} {name} [{prop}] {first[:200]}", flush=True)
        finally:
            shutil.rmtree(tmp, ignore_errors=True)
        return out

    todo = [it for it in items if (not filt or filt in it[0]) and (only_prop is None or only_prop in it[1])]
    if jobs > 1:
        from concurrent.futures import ThreadPoolExecutor

        with ThreadPoolExecutor(jobs) as ex:
            for out in ex.map(run_item, todo):
                results.extend(out)
    else:
        for it in todo:
            results.extend(run_item(it))
    missed = [r for r in results if r[1] != "CAUGHT"]
    print(f"\n{len(results) - len(missed)}/{len(results)} caught")
    return 1 if missed else 0


if __name__ == "__main__":
    sys.exit(main())
