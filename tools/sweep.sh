#!/bin/bash
# tools/sweep.sh <tier> <seed>...   run every registered check for each seed; one line per (check, seed)
cd "$(dirname "$0")/.."
tier=$1; shift
for seed in "$@"; do
  for p in C01 C02 C03 C04 C05 C06 C07 C08 C09 C10 C11 C12 C13 C14 C15 C16 C17 C18 C19 C20; do
    out=$(VERIF_SEED=$seed VERIF_NO_EVIDENCE=1 ./check $p $tier 2>&1); rc=$?
    echo "seed=$seed $p exit=$rc $(echo "$out" | grep -E 'VIOLATION|INCONCLUSIVE' | head -2 | cut -c1-220 | tr '\n' ' ')"
  done
done
