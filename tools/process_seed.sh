#!/bin/bash
# tools/process_seed.sh <seed-id> <agent-dir> <property>: confirm a sub-agent's seeded change (tools/confirm_seed.sh), write
# seeded/<id>/meta.json from the agent's own description plus the confirmation result, remove the agent's scratch copy,
# then run the owning check against it (tools/run_mutants.py seeded/<id>).
set -u
ID=$1; WT=$2; PROP=$3
cd /verif
RES=$(tools/confirm_seed.sh $ID $WT $PROP 2>&1 | tail -1)
echo "$RES"
case "$RES" in
  *"apply=0 demo_clean_exit=0 demo_patched_exit=1 pytest: 1 failed, 1433 passed"*) ;;
  *) echo "NOT CONFIRMED: $ID"; exit 1;;
esac
python3 - "$ID" "$PROP" <<'EOF'
import json, pathlib, sys
sid, prop = sys.argv[1:3]
d = pathlib.Path("/verif/seeded") / sid
a = json.loads((d / "agent_meta.json").read_text())
m = {
    "property": prop,
    "checks": [prop],
    "summary": a.get("summary", ""),
    "needs": a.get("needs", ""),
    "files": a.get("files", []),
    "origin": "independent sub-agent given only the property text and a history-free scratch copy of the repository",
    "confirmed": "tools/confirm_seed.sh: fresh worktree - demo exits 0 on the clean tree, patched tree passes the repository's tests "
                 "(1433 passed, only the pre-existing test_origin[type_alias_type] failure), demo exits 1 with the patch",
    "ran": f"tools/run_mutants.py seeded/{sid}",
    "detection": "",
    "also_caught_by": [],
}
(d / "meta.json").write_text(json.dumps(m, indent=1) + "\n")
EOF
rm -rf "$WT"
python3 tools/run_mutants.py seeded/$ID 2>&1 | tail -4
