#!/usr/bin/env python3
"""Do all mutants (mutants/mutants.py) and seeded patches (seeded/*/patch.diff) still apply to /repo's current source?"""
import pathlib
import shutil
import subprocess
import sys
import tempfile

ROOT = pathlib.Path(__file__).resolve().parent.parent
sys.path.insert(0, str(ROOT))
from mutants.mutants import M  # noqa: E402

bad = 0
for name, props, file, old, new in M:
    n = (pathlib.Path("/repo/src") / file).read_text().count(old)
    if n != 1:
        bad += 1
        print(f"MUTANT {name}: old text found {n} times")
tmp = pathlib.Path(tempfile.mkdtemp(prefix="pchk_"))
try:
    shutil.copytree("/repo/src", tmp / "src")
    for d in sorted((ROOT / "seeded").glob("*/")):
        p = d / "patch.diff"
        if not p.exists():
            continue
        r = subprocess.run(["patch", "-p1", "-s", "--dry-run", "-d", str(tmp), "-i", str(p)], capture_output=True, text=True)
        if r.returncode != 0 or "fuzz" in r.stdout or "offset" in r.stdout and False:
            bad += 1
            print(f"SEED {d.name}: {r.stdout.strip()[:200]}")
finally:
    shutil.rmtree(tmp, ignore_errors=True)
print("all apply" if not bad else f"{bad} do not apply")
sys.exit(1 if bad else 0)
