#!/bin/bash
# tools/confirm_seed.sh <seed-id> <agent-worktree> <property> : copy the agent's deliverables to seeded/<id>, confirm in a
# FRESH scratch worktree that (a) the demo passes without the patch, (b) the patched tree passes the repo's tests
# (only the pre-existing failure), (c) the demo fails with the patch. The scratch worktree is removed afterwards.
set -u
ID=$1; WT=$2; PROP=$3
D=/verif/seeded/$ID
mkdir -p $D
cp $WT/seed_patch.diff $D/patch.diff; cp $WT/seed_demo.py $D/demo.py; cp $WT/seed_meta.json $D/agent_meta.json
C=/tmp/confirm_$ID
git -C /repo worktree add -q --detach $C HEAD || exit 2
cd $C
cp $D/demo.py seed_demo.py
PYTHONPATH=$C/src /venv/bin/python seed_demo.py > /tmp/confirm_$ID.clean.log 2>&1; CLEAN=$?
git apply $D/patch.diff; APPLY=$?
PYTHONPATH=$C/src /venv/bin/python -m pytest -q -p no:cacheprovider 2>&1 | tail -1 > /tmp/confirm_$ID.pytest.log
PYTHONPATH=$C/src /venv/bin/python seed_demo.py > /tmp/confirm_$ID.patched.log 2>&1; PATCHED=$?
cd /; git -C /repo worktree remove --force $C
echo "seed=$ID apply=$APPLY demo_clean_exit=$CLEAN demo_patched_exit=$PATCHED pytest: $(cat /tmp/confirm_$ID.pytest.log)"
