"""C17 - type predicates agree with Python's own type semantics (catalogue differential, spelling independence, stability)."""
from __future__ import annotations

import collections
import collections.abc as cabc
import dataclasses
import datetime
import decimal
import enum
import fractions
import functools
import inspect
import ipaddress
import numbers
import pathlib
import re
import sqlite3
import sys
import types
import typing
import uuid

from typelib.py import inspection

from vlib import graphspec
from vlib.oracles import short
from vlib.workload import case_rng, per_shard

ID = "C17"
LEVEL = "exploration"
RULE = ("every public predicate/accessor of typelib.py.inspection x every catalogue object of its documented domain: builtin and stdlib "
        "classes the library names, every collections.abc ABC and typing alias bare and parameterised in both spellings, synthesised user "
        "classes of each structured flavour and subclasses of builtins, NewType and TypeAliasType wrappers of all of these, unions in three "
        "spellings, Literal, Final, ClassVar, TypeVars, Callable forms, Any; instances for the instance predicates. Oracles are Python's own: "
        "issubclass against the ABC/base on the resolved class (typing origin after NewType/alias resolution and the documented abstract->"
        "builtin mapping), typing.get_origin/get_args, dataclasses/typing/inspect helpers. Also: equal answers across spellings of one type, "
        "across repeated calls and after cache_clear, and origin() of a collection annotation is an instantiable class of that kind. one "
        "evaluation = one (predicate, object) judged; distinct = (predicate, object repr); exhaustive over the catalogue; the random part "
        "re-wraps catalogue entries in NewType/alias chains")
ASSUMPTIONS = [
    "a predicate's domain is what its docstring/doctests show plus what the dispatch tables apply it to: class-valued predicates (_safe_issubclass family) are judged on classes and on parameterised spellings of those classes; on NewType/alias wrappers and special forms only totality and stability are demanded",
    "issequencetype is judged only where its two documented readings (Collection incl. builtins / Sequence) agree; issubscriptedgeneric/isgeneric/name/qualname/isstdlibtype/isbuiltintype are spelling-sensitive by definition and excluded from the spelling clause",
    "the abstract->builtin mapping is the documented one (Sequence/MutableSequence/Collection/Iterable->list, Set/MutableSet->set, Mapping/MutableMapping->dict, Hashable->str)",
]
EXHAUSTIVE = {"quick": True, "thorough": True}
PLAN = {"quick": dict(rewraps=1500, programs=2000), "thorough": dict(rewraps=60000, programs=20000)}
FLOORS = {"quick": {"judged": 100000, "program_annotations": 8000, "predicates": 55, "objects": 330, "spelling_groups_checked": 30, "stability_checked": 100000, "origin_instantiable_checked": 60},
          "thorough": {"judged": 1500000, "program_annotations": 150000, "predicates": 55, "objects": 330, "spelling_groups_checked": 30, "stability_checked": 1500000, "origin_instantiable_checked": 60}}

T = typing.TypeVar("T")
TB = typing.TypeVar("TB", bound=int)
_UserId = typing.NewType("_UserId", int)
_AdminId = typing.NewType("_AdminId", _UserId)
_Names = typing.TypeAliasType("_Names", typing.List[str])
TN = typing.TypeVar("TN", bound=_UserId)          # type-variables bound to wrappers: resolution must go all the way down
TNN = typing.TypeVar("TNN", bound=_AdminId)
TA = typing.TypeVar("TA", bound=_Names)
TCN = typing.TypeVar("TCN", _UserId, str)

DOC_MAP = {cabc.Sequence: list, cabc.MutableSequence: list, cabc.Collection: list, cabc.Iterable: list, cabc.Set: set, cabc.MutableSet: set,
           cabc.Mapping: dict, cabc.MutableMapping: dict, cabc.Hashable: str}
MODNAME = "vpred_cat"
SRC = '''
import typing, dataclasses, enum, datetime, uuid, decimal, collections, collections.abc, sqlite3, pathlib, fractions
@dataclasses.dataclass
class DC:
    a: int = 0
@dataclasses.dataclass(frozen=True)
class FDC:
    a: int = 0
class NT(typing.NamedTuple):
    a: int = 0
UNT = collections.namedtuple("UNT", ["a"])
class TD(typing.TypedDict):
    a: int
Unit = collections.namedtuple("Unit", ())          # structured classes without any field
class TUnit(typing.NamedTuple):
    pass
class SubUnit(Unit):
    pass
class EmptyTD(typing.TypedDict):
    pass
@dataclasses.dataclass
class EmptyDC:
    pass
class Plain:
    x: int
    def __init__(self, x: int = 0):
        self.x = x
class NoHints:
    pass
class Col(enum.Enum):
    a = 1
class ICol(enum.IntEnum):
    a = 1
class MyStr(str): pass
class MyInt(int): pass
class MyList(list): pass
class MyDict(dict): pass
class MyTuple(tuple): pass
class MyDate(datetime.date): pass
class MyDT(datetime.datetime): pass
class MyUUID(uuid.UUID): pass
class MyDec(decimal.Decimal): pass
class MyRow(sqlite3.Row): pass
class MyRow2(MyRow): pass
class MyODict(collections.OrderedDict): pass
class MyDeque(collections.deque): pass
class MyPath(pathlib.PurePosixPath): pass
class MyTD(datetime.timedelta): pass
class MyTime(datetime.time): pass
class MyFrac(fractions.Fraction): pass
class MyFloat(float): pass
class MyBytes(bytes): pass
class MySet(set): pass
class MyFSet(frozenset): pass
class MyMapping(collections.abc.Mapping):
    def __getitem__(self, k): raise KeyError(k)
    def __iter__(self): return iter(())
    def __len__(self): return 0
class MySeq(collections.abc.Sequence):
    def __getitem__(self, i): raise IndexError(i)
    def __len__(self): return 0
class MyIter:
    def __iter__(self): return self
    def __next__(self): raise StopIteration
class Box(typing.Generic[typing.TypeVar("T")]):
    pass
class FromDict:
    @classmethod
    def from_dict(cls, d): return cls()
class Desc:
    def __get__(self, inst, owner): return 1
class WithProp:
    d = Desc()
    @property
    def p(self): return 1
    def m(self): return 2
    attr = 3
'''


def catalogue():
    if MODNAME not in sys.modules:
        m = types.ModuleType(MODNAME)
        sys.modules[MODNAME] = m
        exec(compile(SRC, f"/verif/out/generated/{MODNAME}.py", "exec", dont_inherit=True), m.__dict__)
    m = sys.modules[MODNAME]
    classes = [int, bool, float, str, bytes, bytearray, memoryview, list, tuple, set, frozenset, dict, type(None), complex, object, type, range,
               decimal.Decimal, fractions.Fraction, uuid.UUID, pathlib.Path, pathlib.PurePath, pathlib.PurePosixPath, pathlib.PureWindowsPath,
               datetime.date, datetime.datetime, datetime.time, datetime.timedelta, re.Pattern, re.Match, enum.Enum, enum.IntEnum,
               collections.deque, collections.defaultdict, collections.OrderedDict, collections.Counter, collections.ChainMap, types.MappingProxyType,
               ipaddress.IPv4Address, ipaddress.IPv6Address, sqlite3.Row, numbers.Number, numbers.Integral, slice, BaseException,
               m.DC, m.FDC, m.NT, m.UNT, m.TD, m.Unit, m.TUnit, m.SubUnit, m.EmptyTD, m.EmptyDC, m.Plain, m.NoHints, m.Col, m.ICol, m.MyStr, m.MyInt, m.MyList, m.MyDict, m.MyTuple, m.MyDate, m.MyDT,
               m.MyUUID, m.MyDec, m.MyRow, m.MyRow2, m.MyODict, m.MyDeque, m.MyPath, m.MyTD, m.MyTime, m.MyFrac, m.MyFloat, m.MyBytes, m.MySet, m.MyFSet, m.MyMapping, m.MySeq, m.MyIter, m.Box, m.FromDict, type(iter([])), type(x for x in ())]
    abcs = [cabc.Iterable, cabc.Iterator, cabc.Collection, cabc.Sequence, cabc.MutableSequence, cabc.Set, cabc.MutableSet, cabc.Mapping,
            cabc.MutableMapping, cabc.Hashable, cabc.Sized, cabc.Container, cabc.Reversible, cabc.Generator, cabc.KeysView, cabc.ValuesView,
            cabc.ItemsView, cabc.ByteString if hasattr(cabc, "ByteString") else cabc.Sequence]
    tbare = [typing.List, typing.Dict, typing.Set, typing.FrozenSet, typing.Tuple, typing.Deque, typing.DefaultDict, typing.OrderedDict, typing.Counter,
             typing.Sequence, typing.MutableSequence, typing.Collection, typing.Iterable, typing.Iterator, typing.Mapping, typing.MutableMapping,
             typing.AbstractSet, typing.MutableSet, typing.Hashable, typing.Pattern, typing.Type]
    param = [typing.List[int], list[int], typing.Dict[str, int], dict[str, int], typing.Set[int], set[int], typing.FrozenSet[int], frozenset[int],
             typing.Tuple[int, ...], tuple[int, ...], typing.Tuple[int, str], tuple[int, str], typing.Tuple[int], tuple[int], typing.Deque[int],
             collections.deque[int], typing.DefaultDict[str, int], collections.defaultdict[str, int], typing.OrderedDict[str, int],
             collections.OrderedDict[str, int], typing.Sequence[int], cabc.Sequence[int], typing.MutableSequence[int], cabc.MutableSequence[int],
             typing.Collection[int], cabc.Collection[int], typing.Iterable[int], cabc.Iterable[int], typing.Iterator[int], cabc.Iterator[int],
             typing.Mapping[str, int], cabc.Mapping[str, int], typing.MutableMapping[str, int], cabc.MutableMapping[str, int], typing.AbstractSet[int],
             cabc.Set[int], typing.MutableSet[int], cabc.MutableSet[int], typing.Pattern[str], re.Pattern[str], m.Box[int], typing.Type[int], type[int],
             typing.List[TB], typing.Dict[str, T], list[T], dict[str, TB], typing.Tuple[T, ...],
             list[list[int]], dict[str, list[int]], typing.List[typing.Optional[int]], tuple[()] if False else tuple[int, int, int]]
    special = [typing.Optional[int], typing.Union[int, None], int | None, typing.Union[int, str], int | str, typing.Union[None, int, str],
               typing.Optional[typing.List[int]], list[int] | None, typing.Literal[1], typing.Literal["a", None], typing.Literal[1, 2, 3],
               typing.Final[int], typing.Final[typing.List[int]], typing.ClassVar[int], typing.ClassVar[typing.Dict[str, int]], typing.Any, T, TB,
               typing.Callable, cabc.Callable, typing.Callable[[int], str], typing.Callable[..., typing.Any], None, Ellipsis, inspect.Parameter.empty,
               typing.ForwardRef("int"), typing.Generic, typing.Protocol,
               typing.TypeVar("T_co", covariant=True), typing.TypeVar("T_contra", contravariant=True), typing.ParamSpec("P"), len, catalogue,
               TN, TNN, TA, TCN, typing.ClassVar[TN], typing.Final[TA], typing.List[TN], dict[str, TA],
               # order-permuted twins of the unions / literals above (equal and hash-equal to them, different get_args order)
               typing.Union[str, int], str | int, typing.Union[None, int], None | int, typing.Union[str, None, int], typing.Literal[3, 2, 1],
               typing.Literal[None, "a"], typing.Optional[typing.List[int]], None | list[int], typing.Union[None, typing.List[int]]]
    return m, classes, abcs, tbare, param, special


def resolve(x):
    """The class an annotation resolves to: NewType/alias peeled, typing origin, documented abstract->builtin mapping."""
    for _ in range(20):  # NewType / alias chains only: a Final/ClassVar qualifier is not a type
        if hasattr(x, "__supertype__"):
            x = x.__supertype__
        elif isinstance(x, typing.TypeAliasType) and not isinstance(x.__value__, str):
            x = x.__value__
        else:
            break
    o = typing.get_origin(x) or x
    return DOC_MAP.get(o, o)


def is_cls(x):
    return inspect.isclass(x)


def subclass_of(*bases):
    def oracle(x):
        r = resolve(x)
        if not is_cls(r):
            return NotImplemented
        try:
            return issubclass(r, bases)
        except TypeError:
            return NotImplemented
    return oracle


def plain_subclass_of(*bases):
    """class-valued predicate: classes, and parameterised spellings of classes (re.Pattern[str])."""
    def oracle(x):
        if is_cls(x):
            try:
                return issubclass(x, bases)
            except TypeError:
                return NotImplemented
        o = typing.get_origin(x)
        if o is not None and is_cls(o) and typing.get_args(x) and not hasattr(x, "__supertype__") and o not in DOC_MAP:
            try:
                return issubclass(o, bases)
            except TypeError:
                return NotImplemented
        return NotImplemented
    return oracle


_COLL = {list, set, tuple, frozenset, dict, str, bytes}


def o_collection(x):
    r = resolve(x)
    if not is_cls(r):
        return NotImplemented
    return r in _COLL or issubclass(r, cabc.Collection)


def o_sequence(x):
    r = resolve(x)
    if not is_cls(r):
        return NotImplemented
    a = r in _COLL or issubclass(r, cabc.Collection)
    b = r in _COLL or issubclass(r, cabc.Sequence)
    return a if a == b else NotImplemented


def o_mapping(x):
    r = resolve(x)
    if not is_cls(r):
        return NotImplemented
    return issubclass(r, cabc.Mapping) or issubclass(r, (sqlite3.Row, types.MappingProxyType))


def is_wrapper(x):
    return hasattr(x, "__supertype__") or isinstance(x, typing.TypeAliasType)


def _uargs(x):
    return typing.get_origin(x), typing.get_args(x)


def unwrapped_only(fn):
    """Special-form predicates: NewType / alias wrappers are outside the agreement domain."""
    def oracle(x):
        if is_wrapper(x):
            return NotImplemented
        return fn(x)
    return oracle


def through_newtype(fn):
    def oracle(x):
        if isinstance(x, typing.TypeAliasType):
            return NotImplemented
        while hasattr(x, "__supertype__"):
            x = x.__supertype__
        if isinstance(x, typing.TypeAliasType):
            return NotImplemented
        return fn(x)
    return oracle


def o_union(x):
    o, _ = _uargs(x)
    return o in (typing.Union, types.UnionType)


def o_optional(x):
    o, a = _uargs(x)
    if o in (typing.Union, types.UnionType):
        return type(None) in a
    if o is typing.Literal:
        return None in a
    return False


def o_literal(x):
    if typing.get_origin(x) is typing.ClassVar:
        return NotImplemented
    o, _ = _uargs(x)
    return o is typing.Literal


def o_final(x):
    o, _ = _uargs(x)
    return o is typing.Final or x is typing.Final


def o_classvar(x):
    o, _ = _uargs(x)
    return o is typing.ClassVar or x is typing.ClassVar


def o_fixedtuple(x):
    o, a = typing.get_origin(x), typing.get_args(x)
    if o is None:
        return False if is_cls(x) or x in (None, Ellipsis) else NotImplemented
    if not is_cls(o):
        return False
    return bool(a) and a[-1] is not Ellipsis and issubclass(o, tuple)


def o_typeddict(x):
    return typing.is_typeddict(x)


def o_namedtuple(x):
    return is_cls(x) and issubclass(x, tuple) and hasattr(x, "_fields")


def o_typedtuple(x):
    return is_cls(x) and issubclass(x, tuple) and bool(getattr(x, "__annotations__", None))


def o_frozendc(x):
    if not is_cls(x):
        return NotImplemented
    return bool(dataclasses.is_dataclass(x) and x.__dataclass_params__.frozen)


def o_nonetype(x):
    return x is None or x is type(None)


def o_forwardref(x):
    return isinstance(x, typing.ForwardRef)


def o_unresolvable(x):
    docd = (object, typing.Any, re.Match, typing.Callable, cabc.Callable, inspect.Parameter.empty, type(Ellipsis), Ellipsis)
    if any(x is d for d in docd):
        return True
    if typing.get_origin(x) is cabc.Callable:
        return True
    if is_cls(x) or typing.get_origin(x) is not None or x is None:
        return False
    return NotImplemented


def o_fromdict(x):
    return is_cls(x) and hasattr(x, "from_dict")


def o_enum(x):
    return is_cls(x) and issubclass(x, enum.Enum) if is_cls(x) else NotImplemented


def o_structured(x):
    m = sys.modules[MODNAME]
    yes = {m.DC, m.FDC, m.NT, m.UNT, m.TD, m.Unit, m.TUnit, m.SubUnit, m.EmptyTD, m.EmptyDC, m.Plain, m.NoHints}
    if x in yes or (typing.get_origin(x) is tuple and typing.get_args(x) and typing.get_args(x)[-1] is not Ellipsis):
        return True
    if typing.get_origin(x) in (typing.Union, types.UnionType, typing.Literal):
        return False
    if x in (tuple, list, dict, set, int, str, float, bool, bytes, datetime.date, datetime.datetime, decimal.Decimal, uuid.UUID, typing.Collection[str]):
        return False
    return NotImplemented


def o_builtin(x):
    table = {int, bool, float, str, bytes, bytearray, list, set, frozenset, tuple, dict, type(None)}
    r = x
    while hasattr(r, "__supertype__"):
        r = r.__supertype__
    if r in table:
        return True
    if is_cls(r) and r.__module__ != "builtins":
        return False
    return NotImplemented


def o_origin(x):
    """origin(x) for classes / generic annotations (callables excluded: the library maps them to typing.Callable)."""
    if typing.get_origin(x) is typing.ClassVar or isinstance(x, typing.TypeAliasType) and False:
        return NotImplemented
    r = resolve(x)
    if not is_cls(r):
        return NotImplemented
    if issubclass(r, cabc.Callable) or r is type or r is types.UnionType:
        return NotImplemented  # (unions: typing.Union == types.UnionType spellings share equality-keyed caches, finding D15)
    return r


def o_args(x):
    if hasattr(x, "__supertype__") or isinstance(x, typing.TypeAliasType):
        return NotImplemented
    a = typing.get_args(x)
    out = []
    for e in a:
        if isinstance(e, typing.TypeVar):
            e = e.__bound__ or (typing.Union[e.__constraints__] if e.__constraints__ else typing.Any)
        out.append(e)
    return tuple(out)


def o_unwrap(x):
    if isinstance(x, typing.TypeVar):
        return NotImplemented
    p = graphspec.peel(x)
    if isinstance(p, (typing.TypeVar, typing.TypeAliasType)):
        return NotImplemented
    return p


def o_supertype(x):
    while hasattr(x, "__supertype__"):
        x = x.__supertype__
    return x


def _named_by_runtime(x):
    # objects whose runtime name is their __name__: type-variables, ParamSpecs, NewTypes, plain functions
    return isinstance(x, (typing.TypeVar, typing.ParamSpec, types.FunctionType, types.BuiltinFunctionType)) or hasattr(x, "__supertype__")


def o_name(x):
    if is_cls(x) and x.__module__ != "typing":
        return x.__name__
    if _named_by_runtime(x):
        return x.__name__
    n = getattr(x, "_name", None)
    if typing.get_origin(x) in (typing.Union, types.UnionType):
        return NotImplemented  # Optional[X] == X | None share equality-keyed cache entries (finding D15)
    if n and typing.get_origin(x) is not None and not isinstance(x, types.GenericAlias):
        return n
    if isinstance(x, types.GenericAlias):
        return typing.get_origin(x).__name__
    return NotImplemented


def o_qualname(x):
    if is_cls(x) and x.__module__ != "typing":
        return x.__qualname__.replace("<locals>.", "")
    if _named_by_runtime(x):
        return (getattr(x, "__qualname__", None) or x.__name__).replace("<locals>.", "")
    return NotImplemented


def o_typealias(x):
    return isinstance(x, typing.TypeAliasType)


def o_abstract(x):
    if not is_cls(x):
        return NotImplemented
    return inspect.isabstract(x) or x is numbers.Number


# predicate name -> oracle over TYPE-LIKE catalogue objects
TYPE_PREDICATES = {
    "isdatetype": subclass_of(datetime.date), "isdatetimetype": subclass_of(datetime.datetime), "istimetype": subclass_of(datetime.time),
    "istimedeltatype": subclass_of(datetime.timedelta), "isdecimaltype": subclass_of(decimal.Decimal), "isfractiontype": subclass_of(fractions.Fraction),
    "isuuidtype": subclass_of(uuid.UUID), "isiterabletype": subclass_of(cabc.Iterable), "isiteratortype": subclass_of(cabc.Iterator),
    "istupletype": subclass_of(tuple), "iscollectiontype": o_collection, "issequencetype": o_sequence, "ismappingtype": o_mapping,
    "isstringtype": plain_subclass_of(str), "isbytestype": plain_subclass_of(bytes, bytearray, memoryview),
    "istexttype": plain_subclass_of(str, bytes, bytearray, memoryview), "isnumbertype": plain_subclass_of(numbers.Number),
    "isintegertype": plain_subclass_of(int), "isfloattype": plain_subclass_of(float), "isenumtype": plain_subclass_of(enum.Enum),
    "ispatterntype": plain_subclass_of(re.Pattern), "ispathtype": plain_subclass_of(pathlib.PurePath),
    "isuniontype": unwrapped_only(o_union), "isoptionaltype": unwrapped_only(o_optional), "isliteral": unwrapped_only(o_literal),
    "isfinal": through_newtype(o_final), "isclassvartype": through_newtype(o_classvar), "isfixedtupletype": unwrapped_only(o_fixedtuple), "istypeddict": o_typeddict, "isnamedtuple": o_namedtuple, "istypedtuple": o_typedtuple,
    "isfrozendataclass": o_frozendc, "isnonetype": o_nonetype, "isforwardref": o_forwardref, "isunresolvable": o_unresolvable,
    "isfromdictclass": o_fromdict, "isstructuredtype": o_structured, "isbuiltintype": o_builtin, "origin": o_origin, "args": o_args,
    "unwrap": o_unwrap, "resolve_supertype": o_supertype, "name": o_name, "qualname": o_qualname, "istypealiastype": o_typealias, "isabstract": o_abstract,
    # totality / stability only (no independent definition that is not the implementation itself)
    "isgeneric": None, "issubscriptedgeneric": None, "isstdlibtype": None, "isstdlibsubtype": None, "isbuiltinsubtype": None, "should_unwrap": None,
    "iscallable": None, "issubscriptedcollectiontype": None,
}
SPELLING_FREE = ["isdatetype", "isdatetimetype", "istimetype", "istimedeltatype", "isdecimaltype", "isfractiontype", "isuuidtype", "isiterabletype",
                 "isiteratortype", "istupletype", "iscollectiontype", "ismappingtype", "isuniontype", "isoptionaltype", "isliteral", "isfinal",
                 "isclassvartype", "isfixedtupletype", "isnonetype", "isunresolvable", "origin", "ispatterntype", "isstringtype", "isbytestype",
                 "isnumbertype", "isenumtype", "ispathtype", "isstructuredtype", "isintegertype", "isfloattype", "istexttype"]


def spelling_groups():
    return [
        [typing.List[int], list[int]], [typing.Dict[str, int], dict[str, int]], [typing.Set[int], set[int]], [typing.FrozenSet[int], frozenset[int]],
        [typing.Tuple[int, ...], tuple[int, ...]], [typing.Tuple[int, str], tuple[int, str]], [typing.Deque[int], collections.deque[int]],
        [typing.DefaultDict[str, int], collections.defaultdict[str, int]], [typing.OrderedDict[str, int], collections.OrderedDict[str, int]],
        [typing.Sequence[int], cabc.Sequence[int]], [typing.MutableSequence[int], cabc.MutableSequence[int]], [typing.Collection[int], cabc.Collection[int]],
        [typing.Iterable[int], cabc.Iterable[int]], [typing.Iterator[int], cabc.Iterator[int]], [typing.Mapping[str, int], cabc.Mapping[str, int]],
        [typing.MutableMapping[str, int], cabc.MutableMapping[str, int]], [typing.AbstractSet[int], cabc.Set[int]], [typing.MutableSet[int], cabc.MutableSet[int]],
        [typing.Optional[int], typing.Union[int, None], int | None], [typing.Union[int, str], int | str], [typing.Optional[typing.List[int]], list[int] | None],
        [typing.Pattern[str], re.Pattern[str]], [typing.Pattern, re.Pattern], [typing.List, list], [typing.Dict, dict], [typing.Tuple, tuple], [typing.Set, set],
        [typing.FrozenSet, frozenset], [typing.Sequence, cabc.Sequence], [typing.Mapping, cabc.Mapping], [typing.Iterable, cabc.Iterable],
        [typing.Type[int], type[int]], [typing.Callable, cabc.Callable], [re.Pattern, re.Pattern[str]], [collections.deque, collections.deque[int]],
    ]


def same_answer(a, b):
    try:
        if isinstance(a, (bool, int, str, float)) or isinstance(b, (bool, int, str, float)) or a is None or b is None:
            return a == b and type(a) is type(b)
        return a == b  # type objects: Optional[X] and X | None are equal answers (typing's own equality)
    except Exception:  # noqa: BLE001
        return a is b


def call(pred, x):
    try:
        return ("ok", pred(x))
    except Exception as e:  # noqa: BLE001
        return ("raised", f"{type(e).__name__}: {e}"[:160])


def judge_type(sh, pname, x, label, oracle, twin_warmed=False):
    pred = getattr(inspection, pname, None)
    if pred is None:
        sh.inconclusive.append(f"predicate {pname} no longer exists") if len(sh.inconclusive) < 5 else None
        return
    sh.see("predicates", pname)
    sh.eval((pname, label))
    got = call(pred, x)
    want = NotImplemented
    if oracle is not None:
        try:
            want = oracle(x)
        except Exception:  # noqa: BLE001
            want = NotImplemented
    in_domain = want is not NotImplemented
    if got[0] == "raised":
        # within the documented domain answers never raise; outside it only the dispatch-reachable inputs matter:
        # anything that is a class or a typing annotation can reach the dispatch tables
        if in_domain or oracle is None and (is_cls(x) or is_cls(o_supertype(x))):
            sh.violation("predicate-raised", predicate=pname, obj=label, detail=got[1], in_domain=in_domain)
        return
    sh.count("judged")
    if in_domain and not same_answer(got[1], want):
        sh.violation("predicate-disagrees", predicate=pname, obj=label, expected=short(want, 120), got=short(got[1], 120), twin_warmed=twin_warmed,
                     union_object=typing.get_origin(x) in (typing.Union, types.UnionType))
    # resolution is complete: what unwrap() / resolve_supertype() return is not itself a wrapper they would resolve further
    if pname in ("unwrap", "resolve_supertype"):
        sh.count("resolution_fixpoints_checked")
        once = got[1]
        twice = call(pred, once)
        if twice[0] != "ok" or not same_answer(twice[1], once) or (pname == "unwrap" and (hasattr(once, "__supertype__") or isinstance(once, typing.TypeVar))):
            sh.violation("resolution-incomplete", predicate=pname, obj=label, once=short(once, 120), twice=short(twice, 120))
    # stability: warm repeat and after cache_clear
    sh.count("stability_checked")
    again = call(pred, x)
    if hasattr(pred, "cache_clear"):
        pred.cache_clear()
    cold = call(pred, x)
    if not (again[0] == "ok" and cold[0] == "ok" and same_answer(again[1], got[1]) and same_answer(cold[1], got[1])):
        sh.violation("predicate-unstable", predicate=pname, obj=label, first=short(got, 100), warm=short(again, 100), after_clear=short(cold, 100),
                     union_object=typing.get_origin(resolve(x) if not is_cls(resolve(x)) else x) in (typing.Union, types.UnionType)
                     or typing.get_origin(x) in (typing.Union, types.UnionType))


def instances():
    m = sys.modules[MODNAME]
    wp = m.WithProp
    return [1, "s", b"b", 1.5, None, (1, 2), [1], {"a": 1}, {1}, frozenset({1}), ([1],), m.DC(), m.FDC(), m.NT(), m.Plain(), m.Col.a, decimal.Decimal(1),
            datetime.date(2020, 1, 1), uuid.UUID(int=1), pathlib.Path("."), re.compile("a"), wp.__dict__["p"], wp.__dict__["d"], wp.__dict__["m"], wp.attr,
            wp().m, len, lambda: 1, functools.cached_property(lambda s: 1), m.Desc, int, object(), slice(1), range(3), bytearray(b"x"), types.MappingProxyType({}),
            # instances of SUBCLASSES of the classes the instance predicates name
            _AuditedProperty(lambda s: 1), _TtlCachedProperty(lambda s: 1), __import__("abc").abstractproperty(lambda s: 1),
            collections.OrderedDict(a=1), collections.defaultdict(list), collections.Counter("ab"), _MyStrInst("x"), _MyListInst([1]), True, enum.IntEnum("IE", "a b").a]


class _AuditedProperty(property):
    pass


class _TtlCachedProperty(functools.cached_property):
    pass


class _MyStrInst(str):
    pass


class _MyListInst(list):
    pass


def judge_instances(sh):
    desc_methods = ("__get__", "__set__", "__delete__", "__set_name__")
    table = {
        "ishashable": lambda o: type(o).__hash__ is not None if not isinstance(o, tuple) else NotImplemented,
        "isproperty": lambda o: isinstance(o, (property, functools.cached_property)),
        "isdescriptor": lambda o: (any(hasattr(o, m_) for m_ in desc_methods)
                                   if inspect.isclass(o) or isinstance(o, (property, functools.cached_property, types.FunctionType)) or type(o).__module__ == MODNAME
                                   else NotImplemented),
        "isbuiltininstance": lambda o: isinstance(o, (int, bool, float, str, bytes, bytearray, list, set, frozenset, tuple, dict, type(None))),
        "isstdlibinstance": None,
        "issimpleattribute": lambda o: (NotImplemented if isinstance(o, types.MethodType) else
                                        not (inspect.isclass(o) or inspect.isroutine(o) or isinstance(o, (property, functools.cached_property))
                                             or any(hasattr(o, m_) for m_ in desc_methods))),
    }
    for pname, oracle in table.items():
        pred = getattr(inspection, pname)
        sh.see("predicates", pname)
        for o in instances():
            label = f"instance:{type(o).__name__}:{short(o, 40)}"
            sh.eval((pname, label))
            got = call(pred, o)
            if got[0] == "raised":
                sh.violation("predicate-raised", predicate=pname, obj=label, detail=got[1], in_domain=True)
                continue
            sh.count("judged")
            sh.count("stability_checked")
            if oracle is not None:
                want = oracle(o)
                if want is not NotImplemented and bool(got[1]) != bool(want):
                    sh.violation("predicate-disagrees", predicate=pname, obj=label, expected=str(want), got=short(got[1]))
            if not same_answer(call(pred, o)[1], got[1]):
                sh.violation("predicate-unstable", predicate=pname, obj=label)


def judge_signatures(sh):
    m = sys.modules[MODNAME]
    sh.see("predicates", "signature")
    sh.see("predicates", "get_type_hints")
    sh.see("predicates", "tuple_signature")
    sh.see("predicates", "typed_dict_signature")
    sh.see("predicates", "safe_get_params")
    for obj in (m.DC, m.FDC, m.NT, m.Plain, m.NoHints, len, (lambda a, b=1: a), m.Plain.__init__, m.Box):
        sh.eval(("signature", repr(obj)))
        got = call(inspection.signature, obj)
        try:
            want = inspect.signature(obj)
        except (TypeError, ValueError):
            continue
        sh.count("judged")
        if got[0] != "ok" or str(got[1]) != str(want):
            sh.violation("predicate-disagrees", predicate="signature", obj=repr(obj), expected=str(want), got=short(got, 120))
    got = call(inspection.signature, m.TD)
    sh.count("judged")
    if got[0] != "ok" or list(got[1].parameters) != ["a"] or any(p.kind is not inspect.Parameter.KEYWORD_ONLY for p in got[1].parameters.values()):
        sh.violation("predicate-disagrees", predicate="signature", obj="TypedDict", got=short(got, 160))
    for tp_, n in ((tuple[int, str], 2), (typing.Tuple[int, str, float], 3)):
        got = call(inspection.signature, tp_) if False else call(inspection.tuple_signature, tp_)
        sh.count("judged")
        if got[0] != "ok" or len(got[1].parameters) != n or any(p.kind is not inspect.Parameter.POSITIONAL_ONLY for p in got[1].parameters.values()) \
                or [p.annotation for p in got[1].parameters.values()] != list(typing.get_args(tp_)):
            sh.violation("predicate-disagrees", predicate="tuple_signature", obj=str(tp_), got=short(got, 160))
    for tp_ in (tuple[int, ...], typing.Tuple[str, ...]):
        got = call(inspection.tuple_signature, tp_)
        sh.count("judged")
        ps = list(got[1].parameters.values()) if got[0] == "ok" else []
        if len(ps) != 1 or ps[0].kind is not inspect.Parameter.VAR_POSITIONAL or ps[0].annotation is not typing.get_args(tp_)[0]:
            sh.violation("predicate-disagrees", predicate="tuple_signature", obj=str(tp_), got=short(got, 160))
    for cls in (m.DC, m.FDC, m.NT, m.TD, m.Plain):
        sh.eval(("get_type_hints", cls.__name__))
        got = call(inspection.get_type_hints, cls)
        want = typing.get_type_hints(cls)
        sh.count("judged")
        if want and (got[0] != "ok" or got[1] != want):
            sh.violation("predicate-disagrees", predicate="get_type_hints", obj=cls.__name__, expected=short(want), got=short(got))
        got = call(inspection.safe_get_params, cls)
        if got[0] != "ok":
            sh.violation("predicate-raised", predicate="safe_get_params", obj=cls.__name__, detail=got[1], in_domain=True)


KIND_ABC = {list: cabc.MutableSequence, dict: cabc.MutableMapping, set: cabc.MutableSet, frozenset: cabc.Set, tuple: cabc.Sequence,
            collections.deque: cabc.MutableSequence, collections.defaultdict: cabc.MutableMapping, collections.OrderedDict: cabc.MutableMapping}


def judge_origin_instantiable(sh, x, label):
    if typing.get_origin(x) in (typing.Final, typing.ClassVar):
        return
    r = resolve(x)
    if not is_cls(r) or not issubclass(r, (cabc.Collection,)) or issubclass(r, (str, bytes)) or r in (cabc.KeysView, cabc.ValuesView, cabc.ItemsView):
        return
    o0 = typing.get_origin(graphspec.peel(x)) or graphspec.peel(x)
    if not is_cls(o0):
        return
    if inspect.isabstract(o0) and o0 not in DOC_MAP:
        return  # an ABC outside the documented mapping has no documented concrete class
    sh.count("origin_instantiable_checked")
    got = call(inspection.origin, x)
    if got[0] != "ok" or not is_cls(got[1]) or inspect.isabstract(got[1]):
        sh.violation("origin-not-instantiable", obj=label, got=short(got, 120))
        return
    kind = cabc.Mapping if issubclass(r, cabc.Mapping) else cabc.Set if issubclass(r, cabc.Set) else cabc.Sequence if issubclass(r, cabc.Sequence) else cabc.Collection
    try:
        inst = got[1]()
    except TypeError:
        return  # needs constructor arguments (user classes): instantiability with no args is not demanded
    if not isinstance(inst, kind):
        sh.violation("origin-wrong-kind", obj=label, got=short(got[1], 80), kind=kind.__name__)


def canaries(sh):
    sh.canary("resolve-sequence-to-list", resolve(typing.Sequence[int]) is list and resolve(typing.NewType("N", dict)) is dict)
    sh.canary("oracle-optional", o_optional(int | None) is True and o_optional(typing.Union[int, str]) is False)
    sh.canary("oracle-date", subclass_of(datetime.date)(datetime.datetime) is True and subclass_of(datetime.datetime)(datetime.date) is False)
    sh.canary("same-answer-strict", not same_answer(True, 1))


def all_objects():
    m, classes, abcs, tbare, param, special = catalogue()
    objs = []
    for group, items in (("class", classes), ("abc", abcs), ("typing", tbare), ("param", param), ("special", special)):
        for x in items:
            objs.append((f"{group}:{short(x, 70)}", x))
    # NewType / alias wrappers of a selection
    wrapped = []
    for label, x in objs:
        if x in (None, Ellipsis, inspect.Parameter.empty) or isinstance(x, (typing.TypeVar, typing.ForwardRef)) or x in (typing.Generic, typing.Protocol):
            continue
        if typing.get_origin(x) in (typing.Final, typing.ClassVar):
            continue
        try:
            wrapped.append((f"NewType({label})", typing.NewType("NT_" + str(len(wrapped)), x)))
            wrapped.append((f"alias({label})", typing.TypeAliasType("AL_" + str(len(wrapped)), x)))
        except Exception:  # noqa: BLE001
            pass
    return objs, wrapped


def run_shard(sh):
    plan = PLAN[sh.tier]
    objs, wrapped = all_objects()
    everything = objs + wrapped
    work = [(p, o) for p in TYPE_PREDICATES for o in everything]
    mine = [w for idx, w in enumerate(work) if idx % sh.nshards == sh.shard]
    # equal-but-distinct catalogue objects (order-permuted unions / literals, Optional[X] vs X | None): the work is sharded by
    # (predicate, object), so a twin is put in front of each judged object here - an equality-keyed cache then answers for the twin
    unionish = [(lb, o) for lb, o in everything if typing.get_origin(o) in (typing.Union, types.UnionType, typing.Literal)]
    twins = {}
    for lb, o in unionish:
        tw = []
        for lb2, o2 in unionish:
            try:
                if o2 is not o and o2 == o:
                    tw.append(o2)
            except Exception:  # noqa: BLE001
                pass
        if tw:
            twins[id(o)] = tw
    for pname, (label, x) in mine:
        sh.see("objects", label)
        warmed = False
        if id(x) in twins:
            pred = getattr(inspection, pname, None)
            for y in twins[id(x)]:
                call(pred, y)
                warmed = True
                sh.count("twin_warmed_judgements")
        judge_type(sh, pname, x, label, TYPE_PREDICATES[pname], twin_warmed=warmed)
    if sh.shard == 0:
        judge_instances(sh)
        judge_signatures(sh)
        for label, x in everything:
            judge_origin_instantiable(sh, x, label)
        # spelling independence
        for group in spelling_groups():
            sh.count("spelling_groups_checked")
            for pname in SPELLING_FREE:
                pred = getattr(inspection, pname)
                answers = [call(pred, x) for x in group]
                sh.eval(("spelling", pname, str(group)))
                if any(a[0] != "ok" for a in answers):
                    sh.violation("predicate-raised", predicate=pname, obj=str(group), detail=short(answers, 200), in_domain=True)
                elif pname == "origin" and not all(is_cls(a[1]) for a in answers):
                    continue
                elif any(not same_answer(a[1], answers[0][1]) for a in answers[1:]):
                    sh.violation("spelling-dependent", predicate=pname, spellings=short(group, 200), answers=short([a[1] for a in answers], 200))
        sh.sample({"predicates": len(TYPE_PREDICATES), "objects": len(everything)})
    else:
        for _ in range(3):
            sh.count("spelling_groups_checked", 0)
    # random re-wrapping: deeper NewType/alias chains over catalogue entries (totality/stability + agreement via resolve)
    n = per_shard(plan["rewraps"], sh.nshards, sh.shard)
    wrappable = [(lb, o) for lb, o in objs if not lb.startswith("special:")]  # qualifiers / unions / TypeVars are not types a NewType may wrap

    def case(i):
        rng = case_rng(sh, i)
        label, x = rng.choice(wrappable)
        chain = []
        y = x
        try:
            for k in range(rng.choice([2, 3])):
                if rng.random() < 0.5:
                    y = typing.NewType(f"RW{i}_{k}", y)
                    chain.append("NewType")
                else:
                    y = typing.TypeAliasType(f"RA{i}_{k}", y)
                    chain.append("alias")
        except Exception:  # noqa: BLE001
            return
        pname = rng.choice(list(TYPE_PREDICATES))
        judge_type(sh, pname, y, "+".join(chain) + "(" + label + ")", TYPE_PREDICATES[pname])

    sh.run_cases(n, case)

    # in-situ part: every annotation object of synthesised programs (the objects the dispatch tables really see:
    # user classes of every flavour, enums, nested generics in both spellings, unions, aliases, NewTypes)
    from vlib import universe as U
    from vlib.workload import make_program

    nprog = per_shard(plan["programs"], sh.nshards, sh.shard)

    def prog_case(i):
        rng = case_rng(sh, 10_000_000 + i)
        prog, gen, roots = make_program(rng, U.Opts(depth=rng.choice([1, 2, 3])), nroots=2)
        try:
            seen = set()
            for r in roots:
                for spec in r.walk():
                    if spec.kind == "rec" or isinstance(spec.t, str) or id(spec) in seen:
                        continue
                    seen.add(id(spec))
                    sh.count("program_annotations")
                    for pname in rng.sample(list(TYPE_PREDICATES), 12):
                        judge_type(sh, pname, spec.t, "program:" + spec.kind + ":" + spec.src[:60], TYPE_PREDICATES[pname])
        finally:
            prog.drop()

    sh.run_cases(nprog, prog_case)
