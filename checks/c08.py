"""C08 - union members are tried in declared order, None always honoured (both directions)."""
from __future__ import annotations

import dataclasses
import datetime
import decimal
import enum
import itertools
import sys
import types
import typing
import uuid

import typelib

from vlib import hostile
from vlib.oracles import canon, short
from vlib.workload import case_rng, clear_typelib_caches, per_shard, quiet

ID = "C08"
LEVEL = "exploration"
RULE = ("ordered member tuples of length 2-4 over a pool of 12 member types (int, str, float, Decimal, date, datetime, UUID, list[int], "
        "dict[str,int], a dataclass, an Enum, a Literal; in 30% of the unions one member is replaced by a union behind a name - NewType or alias of a union, with and without None), None inserted at every position, spellings typing.Union / Optional / X|Y; every "
        "union is built on cold typelib+typing caches; inputs = hostile pool X + every member's valid values and wire forms; one "
        "evaluation = one (union, input, direction) compared with the reference rule evaluated over independently built member "
        "routines; distinct = (member tuple, spelling, canonical input, direction); non-trivial = at least two members accept or reject "
        "differently (all are kept; the reference is never trivial because member routines are the library's own)")
ASSUMPTIONS = [
    "the reference uses the library's own member routines, so C08 judges only the combination rule (order, None, rejection handling), not member behaviour",
    "RecursionError/MemoryError are not 'rejections'; one-shot iterators are not used as inputs (the first member would consume them)",
    "typing.Union equality ignores member order, so each permutation is built after clearing every typelib cache and typing's own (the shared-process pass reports that mechanism as the D15 finding)",
]
EXHAUSTIVE = {"quick": False, "thorough": False}
PLAN = {"quick": dict(unions=2600, inputs=36), "thorough": dict(unions=60000, inputs=70)}
FLOORS = {"quick": {"accept_all_members": 200, "subclass_members": 150, "named_union_members": 500, "single_member_optionals": 30, "unmarshal_compared": 70000, "marshal_compared": 40000, "none_honoured": 2000, "all_reject_valueerror": 8000, "orders": 2000},
          "thorough": {"accept_all_members": 5000, "subclass_members": 3000, "named_union_members": 12000, "single_member_optionals": 30, "unmarshal_compared": 3000000, "marshal_compared": 1500000, "none_honoured": 60000, "all_reject_valueerror": 300000, "orders": 30000}}

MOD = "vunion_pool"
SRC = """
import dataclasses, enum, typing
@dataclasses.dataclass
class DC:
    a: int
    b: str = "d"
class Col(enum.Enum):
    red = "red"
    one = 1
Lit = typing.Literal[1, "a", None]
Lit2 = typing.Literal["x", 2]
# unions behind a NAME: one member of the outer union, tried as a whole at its declared position
import datetime, uuid
NTU = typing.NewType("NTU", typing.Union[int, datetime.date])
AlU = typing.TypeAliasType("AlU", float | uuid.UUID)
MaybeInt = typing.TypeAliasType("MaybeInt", typing.Optional[int])
NTS = typing.NewType("NTS", typing.Union[bool, str])
# a class declared next to (possibly after) its own base: still a member of its own, tried at its position
@dataclasses.dataclass
class DCChild(DC):
    a: str = "child"
"""
NAMED_UNIONS = ["NTU", "AlU", "MaybeInt", "NTS"]
SUBCLASS_OF = {"int": ("bool", bool), "DC": ("DCChild", None)}
EXTRA_MEMBERS = ["bytes", "Any", "object"]  # members that take bytes-like input as it is / accept everything: they answer at THEIR position


def pool():
    if MOD not in sys.modules:
        m = types.ModuleType(MOD)
        sys.modules[MOD] = m
        exec(compile(SRC, f"/verif/out/generated/{MOD}.py", "exec", dont_inherit=True), m.__dict__)
    m = sys.modules[MOD]
    return {
        "int": int, "str": str, "float": float, "Decimal": decimal.Decimal, "date": datetime.date, "datetime": datetime.datetime,
        "UUID": uuid.UUID, "list[int]": list[int], "dict[str,int]": dict[str, int], "DC": m.DC, "Col": m.Col, "Lit2": m.Lit2,
        **{n: getattr(m, n) for n in NAMED_UNIONS},
        "bool": bool, "DCChild": m.DCChild, "bytes": bytes, "Any": typing.Any, "object": object,
    }, m


def member_values(m):
    UTC = datetime.timezone.utc
    return [0, 1, -5, 10**25, "", "a", "1", "1.5", "abc", "null", "x", "red", 1.5, -0.0, 2.0, decimal.Decimal("1.50"), decimal.Decimal("7"),
            datetime.date(2020, 1, 2), datetime.datetime(2020, 1, 2, 3, 4, 5, tzinfo=UTC), uuid.UUID(int=7), [1, 2], [], ["1", "2"], {"a": 1}, {},
            {"a": "1"}, m.DC(1, "z"), {"a": 1, "b": "q"}, {"a": "5"}, m.DCChild("z"), {"a": "x"}, "true", "yes", "on", b"\xff\xfe", bytearray(b"\x80abc"), b"abc", memoryview(b"1"), m.Col.red, m.Col.one, "2020-01-02", "2020-01-02T03:04:05+00:00",
            "00000000-0000-0000-0000-000000000007", 2, True, False, None, b"1", b"abc", "[1, 2]", '{"a": 1}', (1, 2), {"b": "only"}, 7.0, "7"]


def build_union(members, spelling):
    ms = [type(None) if x is None else x for x in members]
    if spelling == "pipe":
        try:
            u = ms[0]
            for x in ms[1:]:
                u = u | x
            return u
        except TypeError:
            return typing.Union[tuple(ms)]
    if spelling == "Optional" and len(ms) == 2 and ms[1] is type(None):
        return typing.Optional[ms[0]]
    return typing.Union[tuple(ms)]


def outcome(fn, x):
    try:
        with quiet():
            return ("ok", fn(x))
    except (RecursionError, MemoryError):
        return ("skip", None)
    except Exception as e:  # noqa: BLE001
        return ("raised", type(e).__name__, tuple(k.__name__ for k in type(e).__mro__))


def ref_unmarshal(members, routines, x):
    if x is None and None in members:
        return ("ok", None), "none"
    for m, r in zip(members, routines):
        o = outcome(r, x)
        if o[0] == "skip":
            return o, "skip"
        if o[0] == "ok":
            return o, "member"
    return ("raised", "ValueError"), "all-reject"


def ref_marshal(members, routines, x):
    if x is None and None in members:
        return ("ok", None), "none"
    for m, r in zip(members, routines):
        o = outcome(r, x)
        if o[0] == "skip":
            return o, "skip"
        if o[0] == "ok":
            return o, "member"
    return ("raised", "ValueError"), "all-reject"


def same_outcome(a, b):
    if a[0] != b[0]:
        return False
    if a[0] == "ok":
        return canon(a[1], strict=True) == canon(b[1], strict=True)
    # (a = what the rule demands, b = what was observed) an exception of a SUBCLASS of the demanded class is that class
    return a[1] == b[1] or (len(b) > 2 and a[1] in b[2])


def canaries(sh):
    sh.canary("order-matters", not same_outcome(("ok", 1), ("ok", "1")))
    sh.canary("wrong-error-class", not same_outcome(("raised", "ValueError"), ("raised", "InvalidOperation")))
    sh.canary("none-vs-text", not same_outcome(("ok", None), ("ok", "None")))


def names_for(sh, i, rng, names):
    """Deterministic walk over ordered tuples: all of length 2-3 first, then sampled length 4."""
    return None


def run_shard(sh):
    plan = PLAN[sh.tier]
    P, mod = pool()
    names = [n for n in P if n not in NAMED_UNIONS and n not in ("bool", "DCChild") and n not in EXTRA_MEMBERS]
    import random

    # deterministic global enumeration, sharded round-robin
    def all_orders():
        # a single member next to None (Optional[X] in its three spellings and both None positions), each member several times
        for rep in range(3):
            for name in names:
                yield (name,)
        for n in (2, 3):
            for tup in itertools.permutations(names, n):
                yield tup
        rnd = random.Random(f"C08/{sh.seed}/len4")
        while True:
            yield tuple(rnd.sample(names, 4))

    gen = all_orders()
    total = plan["unions"]
    mine = []
    for idx in range(total):
        tup = next(gen)
        if idx % sh.nshards == sh.shard:
            mine.append(tup)
    values = member_values(mod)

    def case(i):
        rng = case_rng(sh, i)
        tup = mine[i]
        if rng.random() < 0.3:
            # one member is a union behind a name (NewType / alias of a union): the outer rule sees ONE member there
            j = rng.randrange(len(tup))
            tup = tup[:j] + (rng.choice(NAMED_UNIONS),) + tup[j + 1:]
            sh.count("named_union_members")
        if len(tup) >= 2 and rng.random() < 0.15:
            j = rng.randrange(1, len(tup))  # never first: an accept-all member in front answers everything
            tup = tup[:j] + (rng.choice(EXTRA_MEMBERS),) + tup[j + 1:]
            sh.count("accept_all_members")
        for base_name, (sub_name, _) in SUBCLASS_OF.items():
            if base_name in tup and len(tup) >= 2 and rng.random() < 0.4:
                # a subclass of another member (bool next to int, a dataclass next to its base), before or after it
                others = [j for j, n_ in enumerate(tup) if n_ != base_name]
                j = rng.choice(others)
                tup = tup[:j] + (sub_name,) + tup[j + 1:]
                sh.count("subclass_members")
        none_pos = rng.choice([None, None] + list(range(len(tup) + 1)))
        if len(tup) == 1:
            none_pos = rng.choice([0, 1])
            sh.count("single_member_optionals")
        members = list(tup)
        if none_pos is not None:
            members.insert(none_pos, None)
        spelling = rng.choice(["Union", "Union", "pipe", "Optional"])
        if len(members) == 2 and members[0] is None and spelling == "Optional":
            members.reverse()
        # cold caches: Union equality ignores order, a warm cache would serve another permutation's routine (D15)
        clear_typelib_caches(also_typing=True)
        Uni = build_union([None if m is None else P[m] for m in members], spelling)
        actual = [None if a is type(None) else a for a in typing.get_args(Uni)]
        label = f"{spelling}[{', '.join('None' if m is None else m for m in members)}]"
        sh.see("orders", label)
        try:
            with quiet():
                um = typelib.unmarshaller(Uni)
                mm = typelib.marshaller(Uni)
        except Exception as e:  # noqa: BLE001
            sh.violation("build-raised", union=label, exc=type(e).__name__, detail=str(e)[:200])
            return
        um_members = [typelib.unmarshaller(type(None) if a is None else a) for a in actual]
        mm_members = [typelib.marshaller(type(None) if a is None else a) for a in actual]
        inputs = rng.sample(values, min(len(values), plan["inputs"] // 2)) + [hostile.pool_item(rng) for _ in range(plan["inputs"] // 2)]
        inputs.extend([None, b"null", "None"])
        for x in inputs:
            if hasattr(x, "__next__"):
                continue
            try:
                key = canon(x, strict=True)
            except Exception:  # noqa: BLE001
                key = repr(type(x))
            # unmarshal direction
            sh.eval((label, key, "u"))
            want, how = ref_unmarshal(actual, um_members, x)
            got = outcome(um, x)
            if want[0] != "skip" and got[0] != "skip":
                sh.count("unmarshal_compared")
                if how == "none":
                    sh.count("none_honoured")
                if how == "all-reject":
                    sh.count("all_reject_valueerror")
                if not same_outcome(want, got):
                    sh.violation("unmarshal-rule", union=label, input=short(x, 200), expected=short(want, 200), got=short(got, 200), how=how)
            # marshal direction
            sh.eval((label, key, "m"))
            want, how = ref_marshal(actual, mm_members, x)
            got = outcome(mm, x)
            if want[0] != "skip" and got[0] != "skip":
                sh.count("marshal_compared")
                if not same_outcome(want, got):
                    sh.violation("marshal-rule", union=label, input=short(x, 200), expected=short(want, 200), got=short(got, 200), how=how)
        if i % 150 == 0:
            sh.sample({"union": label, "inputs": [short(x, 40) for x in inputs[:6]]})
        # shared-process pass (D15): a second permutation of the same members built WITHOUT clearing caches
        if i % 25 == 0 and len(tup) >= 2:
            rev = list(reversed(tup))
            U2 = typing.Union[tuple(P[m] for m in rev)]
            sh.count("shared_process_pairs")
            try:
                um2 = typelib.unmarshaller(U2)
                stack = [getattr(a, "__name__", str(a)) for a in getattr(um2, "stack", ())]
                want_stack = [getattr(P[m], "__name__", str(P[m])) for m in rev]
                if none_pos is None and spelling != "Optional" and stack and stack != want_stack and sorted(stack) == sorted(want_stack):
                    sh.violation("permutation-served-from-cache", union=f"Union[{', '.join(rev)}] after {label}", detail=f"routine tries {stack}")
            except Exception:  # noqa: BLE001
                pass

    sh.run_cases(len(mine), case)
