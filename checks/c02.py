"""C02 - JSON wire round trip, JSON validity, agreement of all entry points and encoder configurations."""
from __future__ import annotations

import json

import typelib

from checks import c01
from vlib import universe as U
from vlib.oracles import canon, json_plain, same, short
from vlib.workload import case_rng, clear_typelib_caches, make_program, per_shard, quiet

ID = "C02"
LEVEL = "exploration"
RULE = ("types from grammar U restricted to str-keyed mappings, 64-bit ints, bytes-free; valid values; configurations {default "
        "(orjson), stdlib json, a tagging codec} x entry points {codec(T), codec(T, encoder=, decoder=), typelib.encode/decode, "
        "explicit marshal/unmarshal composition}; one evaluation = one (type, value, configuration) for which every clause was "
        "checked (independent stdlib parse equals marshal output, decode(encode(v)) restores v under the C01 rule, entry points "
        "agree on bytes and value, user coder called exactly once with exactly the marshalled value / given bytes); plus bytes-like "
        "T carried verbatim (bare, behind NewType/Final/alias, by name/ForwardRef; payload in every bytes-like carrier) and pass-through roots (typing.Any, object) over JSON-plain values; distinct = (type source, canonical value, configuration)")
ASSUMPTIONS = [
    "ints outside the default encoder's 64-bit range, non-str keys and lone surrogates are outside the quantifier (the default encoder rejects them by contract)",
    "value restoration is judged by the C01 oracle (strict, or fixpoint at ambiguous unions), so the same two union findings apply",
]
PLAN = {"quick": dict(programs=2000, values=5, depth=3), "thorough": dict(programs=40000, values=10, depth=5)}
FLOORS = {"quick": {"encode_without_type": 1500, "carrier_documents_decoded": 20000, "subclass_instance_values": 300, "json_validity_checked": 25000, "entrypoint_agreements": 25000, "coder_call_checks": 15000, "bytes_types_checked": 300, "types_given_by_reference": 3000,
                    "bytes_types_wrapped_checked": 300, "bytes_type_forms": 40, "passthrough_roots_checked": 2500},
          "thorough": {"encode_without_type": 50000, "carrier_documents_decoded": 700000, "subclass_instance_values": 10000, "json_validity_checked": 900000, "entrypoint_agreements": 900000, "coder_call_checks": 500000, "bytes_types_checked": 10000, "types_given_by_reference": 100000,
                       "bytes_types_wrapped_checked": 10000, "bytes_type_forms": 60, "passthrough_roots_checked": 50000}}


class Coder:
    """A recording encoder/decoder pair."""

    def __init__(self, kind):
        self.kind = kind
        self.enc_calls = []
        self.dec_calls = []

    def encode(self, m):
        self.enc_calls.append(m)
        raw = json.dumps(m, allow_nan=False).encode("utf8")
        return b"TAG:" + raw if self.kind == "tag" else raw

    def decode(self, b):
        self.dec_calls.append(b)
        if self.kind == "tag":
            assert bytes(b[:4]) == b"TAG:"
            b = b[4:]
        return json.loads(bytes(b) if isinstance(b, memoryview) else b)

    def reset(self):
        self.enc_calls.clear()
        self.dec_calls.clear()


def wire_in_range(m, depth=0):
    if isinstance(m, bool) or m is None or isinstance(m, str):
        return True
    if isinstance(m, int):
        return -(2**63) <= m < 2**63
    if isinstance(m, float):
        return m == m and m not in (float("inf"), float("-inf"))
    if depth > 500:
        return True
    if isinstance(m, list):
        return all(wire_in_range(e, depth + 1) for e in m)
    if isinstance(m, dict):
        return all(isinstance(k, str) and wire_in_range(e, depth + 1) for k, e in m.items())
    return True  # not plain: C06's business


def canaries(sh):
    sh.canary("int-vs-float-distinguished", canon(json.loads(b"1")) != canon(json.loads(b"1.0")))
    sh.canary("list-vs-tuple", canon([1]) != canon((1,)))
    c = Coder("tag")
    c.encode({"a": 1})
    c.encode({"a": 1})
    sh.canary("double-call-visible", len(c.enc_calls) == 2)


def outcome_of(fn):
    try:
        with quiet():
            return ("ok", bytes(fn()))
    except (RecursionError, MemoryError):
        return ("skip",)
    except Exception as e:  # noqa: BLE001
        return ("raised", type(e).__name__)


def subclass_instance(spec, v, rng):
    """A value of T whose class is a STRICT subclass of the class T names (root position only): every entry point is told T, so
    every entry point must convert by T's rules. Returns None when no such value can be built."""
    import dataclasses

    k = spec.kind
    if k == "scalar":
        from checks.c06 import subclassify

        try:
            v2 = subclassify(spec, v, rng, p=1.0)
        except Exception:  # noqa: BLE001
            return None
        return v2 if type(v2) is not type(v) else None
    if k != "struct" or not isinstance(spec.t, type):
        return None
    fl, T = spec.info["flavour"], spec.t
    try:
        if fl.startswith("typeddict"):
            return None
        if fl == "namedtuple":
            Sub = type(T.__name__ + "Sub", (T,), {"__slots__": ()})
            return Sub(*v)
        if dataclasses.is_dataclass(T):
            Sub = dataclasses.make_dataclass(T.__name__ + "Sub", [("zz_extra", int, dataclasses.field(default=5))], bases=(T,),
                                             **({"frozen": True} if T.__dataclass_params__.frozen else {}))
            Sub.__module__ = T.__module__
            return Sub(**{f.name: getattr(v, f.name) for f in dataclasses.fields(T) if f.init})
        Sub = type(T.__name__ + "Sub", (T,), {})
        obj = Sub.__new__(Sub)
        for name in dir(v):
            if not name.startswith("_") and not callable(getattr(v, name)):
                try:
                    setattr(obj, name, getattr(v, name))
                except AttributeError:
                    return None
        if hasattr(obj, "__dict__"):
            obj.zz_extra = 5
        return obj
    except Exception:  # noqa: BLE001
        return None


def one_value(sh, spec, v, prog, rng, coders, judge=True):
    T, tsrc = spec.t, spec.src
    # the entry points also accept the type by reference: a ForwardRef carrying the module, or the qualified name
    Tcodec = T
    if rng.random() < 0.25 and not isinstance(T, str):
        import typing

        name = f"_c02_{abs(hash(tsrc)) % 10**9}"
        setattr(prog.module, name, T)
        Tcodec = typing.ForwardRef(name, module=prog.name) if rng.random() < 0.5 else f"{prog.name}.{name}"
        sh.count("types_given_by_reference")
    try:
        with quiet():
            m = typelib.marshal(v, t=T)
            plain_u = typelib.unmarshal(T, m)
    except Exception:  # noqa: BLE001  (C01 owns failures of the plain path)
        sh.count("plain_path_raised")
        return
    if not wire_in_range(m) or not json_plain(m)[0]:
        # a wire form holding non-finite floats / ints beyond 64 bits is outside the quantifier (it only arises when a
        # lenient union member marshals a foreign value, e.g. float(Decimal('1E+400')) - reported under C01/C06)
        sh.count("skipped_wire_out_of_range")
        return
    for cfg in ("default", "stdlib", "tag"):
        sh.eval((tsrc, canon(v), cfg))
        rec = dict(type_src=tsrc, value=short(v, 300), config=cfg, module_src=prog.source[-2500:])
        try:
            with quiet():
                if cfg == "default":
                    cdc = typelib.codec(Tcodec)
                    b1 = cdc.encode(v)
                    b2 = typelib.encode(v, t=Tcodec)
                    b3 = typelib.compat.json.dumps(m)
                    u1 = cdc.decode(b1)
                    u2 = typelib.decode(Tcodec, b1)
                else:
                    co = coders[cfg]
                    co.reset()
                    cdc = typelib.codec(Tcodec, encoder=co.encode, decoder=co.decode)
                    b1 = cdc.encode(v)
                    n_enc = list(co.enc_calls)
                    u1 = cdc.decode(b1)
                    n_dec = list(co.dec_calls)
                    b2 = typelib.encode(v, t=Tcodec, encoder=co.encode)
                    u2 = typelib.decode(Tcodec, b1, decoder=co.decode)
                    b3 = co.encode(m)
                    sh.count("coder_call_checks")
                    if len(n_enc) != 1 or canon(n_enc[0], strict=True) != canon(m, strict=True):
                        sh.violation("encoder-wiring", detail=f"encoder calls={len(n_enc)} arg={short(n_enc[:1], 200)} marshalled={short(m, 200)}", **rec)
                    if len(n_dec) != 1 or n_dec[0] is not b1 and n_dec[0] != b1:
                        sh.violation("decoder-wiring", detail=f"decoder calls={len(n_dec)}", **rec)
        except Exception as e:  # noqa: BLE001
            sh.violation("entrypoint-raised", exc=type(e).__name__, detail=str(e)[:300], **rec)
            continue
        # JSON validity + independent parse == marshal output
        payload = bytes(b1)[4:] if cfg == "tag" else bytes(b1)
        sh.count("json_validity_checked")
        try:
            parsed = json.loads(payload)
        except Exception as e:  # noqa: BLE001
            sh.violation("not-json", detail=f"{type(e).__name__}: {e}"[:200], encoded=short(payload, 200), **rec)
            continue
        if canon(parsed, strict=True) != canon(m, strict=True):
            sh.violation("json-differs-from-marshal", encoded=short(payload, 200), marshalled=short(m, 200), **rec)
        if not isinstance(b1, bytes):
            sh.violation("encode-not-bytes", detail=type(b1).__name__, **rec)
        # agreement of entry points
        sh.count("entrypoint_agreements")
        if not (bytes(b1) == bytes(b2) == bytes(b3)):
            sh.violation("entrypoints-disagree-bytes", detail=f"codec={short(b1, 120)} api={short(b2, 120)} composed={short(b3, 120)}", **rec)
        if not (same(u1, u2, strict=True) and same(u1, plain_u, strict=True)):
            sh.violation("entrypoints-disagree-value", detail=f"codec={short(u1, 120)} api={short(u2, 120)} composed={short(plain_u, 120)}", **rec)
            continue
        # the same document in another bytes-like carrier - also as a window into a larger buffer (a payload behind a frame header,
        # one of several documents in one buffer): every entry point reads exactly the bytes the carrier exposes
        pre, post = rng.choice([b"\x00\x00\x00*", b"12", b"[1] ", bytes(b1)[:7], b"TAG:"]), rng.choice([b"", b"]", b" 3", bytes(b1)[-5:]])
        ck = rng.choice(["bytearray", "memoryview", "window", "window"])
        doc = {"bytearray": lambda: bytearray(b1), "memoryview": lambda: memoryview(bytes(b1)),
               "window": lambda: memoryview(pre + bytes(b1) + post)[len(pre):len(pre) + len(b1)]}[ck]
        try:
            with quiet():
                if cfg == "default":
                    uc1, uc2 = cdc.decode(doc()), typelib.decode(Tcodec, doc())
                else:
                    co.reset()
                    uc1 = cdc.decode(doc())
                    seen = [bytes(x) for x in co.dec_calls]
                    uc2 = typelib.decode(Tcodec, doc(), decoder=co.decode)
                    if seen != [bytes(b1)]:
                        sh.violation("decoder-wiring", detail=f"carrier {ck}: decoder saw {short(seen, 160)} for the document {short(bytes(b1), 80)}", **rec)
            sh.count("carrier_documents_decoded")
            if not (same(uc1, u1, strict=True) and same(uc2, u1, strict=True)):
                sh.violation("entrypoints-disagree-value", detail=f"document as {ck}: codec={short(uc1, 120)} api={short(uc2, 120)} from bytes={short(u1, 120)}", **rec)
        except Exception as e:  # noqa: BLE001
            sh.violation("entrypoint-raised", exc=type(e).__name__, detail=f"document as {ck}: {e}"[:300], **rec)
        # the type left out: `typelib.encode(v)` takes the value's own class, so it must agree with the codec of that class
        if cfg == "default" and spec.kind in ("struct", "scalar", "enum") and isinstance(T, type) and type(v) is T:
            sh.count("encode_without_type")
            e1, e2 = outcome_of(lambda: typelib.encode(v)), outcome_of(lambda: typelib.codec(type(v)).encode(v))
            if e1 != e2:
                sh.violation("entrypoints-disagree-bytes", detail=f"type left out: typelib.encode(v)={short(e1, 160)} codec(type(v)).encode(v)={short(e2, 160)}", **rec)
        # restoration (C01 rule) - judged once per value on the codec result
        if cfg == "default" and judge:
            if not c01.judge(sh, spec, v, u1, tsrc) and sh.violations:
                sh.violations[-1].setdefault("config", cfg)


def bytes_like_wrapped(sh, rng, prog, T, raw):
    """bytes-like T behind NewType / Final / alias / a reference, and payloads in the other bytes-like carriers."""
    import typing

    name = f"_c02b_{T.__name__}"
    setattr(prog.module, name, T)
    nt = typing.NewType("Blob", T)
    forms = [("NewType", nt), ("Final", typing.Final[T]), ("alias", typing.TypeAliasType("BlobAlias", T)), ("NewType.NewType", typing.NewType("Blob2", nt)),
             ("name", T.__name__), ("qualified", f"{prog.name}.{name}"), ("ForwardRef", typing.ForwardRef(name, module=prog.name))]
    # string-valued aliases defined in the module itself (their text is resolved there): of T, of another string-valued alias, of a NewType
    ns = prog.module.__dict__
    exec(compile(f"import typing\n_c02s1 = typing.TypeAliasType('_c02s1', '{name}')\n_c02s2 = typing.TypeAliasType('_c02s2', '_c02s1')\n"
                 f"_c02s3 = typing.TypeAliasType('_c02s3', '_c02s2')\n_c02n = typing.NewType('_c02n', {name})\n"
                 f"_c02s4 = typing.TypeAliasType('_c02s4', '_c02n')\n",
                 f"/verif/out/generated/{prog.name}_c02b.py", "exec", dont_inherit=True), ns)
    forms += [("stralias", ns["_c02s1"]), ("stralias.stralias", ns["_c02s2"]), ("stralias.stralias.stralias", ns["_c02s3"]),
              ("stralias.NewType", ns["_c02s4"]), ("NewType.stralias", typing.NewType("Blob3", ns["_c02s2"]))]
    how, W = rng.choice(forms)
    carrier = rng.choice([bytes, bytearray, memoryview])
    sh.count("bytes_types_wrapped_checked")
    sh.see("bytes_type_forms", f"{T.__name__}:{how}:{carrier.__name__}")
    sh.eval((f"{how}[{T.__name__}]", raw, carrier.__name__))
    try:
        with quiet():
            cdc = typelib.codec(W)
            e = cdc.encode(T(raw))
            d = cdc.decode(carrier(raw))
    except Exception as ex:  # noqa: BLE001
        sh.violation("bytes-type-raised", type_src=f"{how}[{T.__name__}]", value=short(raw, 80), exc=type(ex).__name__, detail=str(ex)[:200], carrier=carrier.__name__)
        return
    # (the identity coder belongs to codec(); typelib.encode/decode always apply the configured encoder, as the explicit composition does)
    if not (bytes(e) == raw and bytes(d) == raw and isinstance(d, T)):
        sh.violation("bytes-not-verbatim", type_src=f"{how}[{T.__name__}]", value=short(raw, 80), carrier=carrier.__name__,
                     encoded=short(e, 80), decoded=short(d, 80))


def plain_value(rng, depth=0):
    r = rng.random()
    if depth >= 3 or r < 0.45:
        return rng.choice([0, 1, -7, 2**53, 1.5, -0.25, "", "x", "é\u2603", "null", "[1]", True, False, None])
    if r < 0.75:
        return [plain_value(rng, depth + 1) for _ in range(rng.randrange(0, 4))]
    return {rng.choice(["a", "b", "", "k y", "é"]): plain_value(rng, depth + 1) for _ in range(rng.randrange(0, 4))}


def passthrough_roots(sh, rng, coders):
    """T whose routine passes the value through (typing.Any, object): still JSON on the wire, all entry points agree."""
    import typing

    for T, tsrc in ((typing.Any, "typing.Any"), (object, "object")):
        v = plain_value(rng)
        for cfg in ("default", "stdlib", "tag"):
            sh.count("passthrough_roots_checked")
            sh.eval((tsrc, canon(v), cfg))
            rec = dict(type_src=tsrc, value=short(v, 200), config=cfg)
            try:
                with quiet():
                    if cfg == "default":
                        cdc = typelib.codec(T)
                        b2 = typelib.encode(v, t=T)
                        b3 = typelib.compat.json.dumps(typelib.marshal(v, t=T))
                    else:
                        co = coders[cfg]
                        cdc = typelib.codec(T, encoder=co.encode, decoder=co.decode)
                        b2 = typelib.encode(v, t=T, encoder=co.encode)
                        b3 = co.encode(typelib.marshal(v, t=T))
                    b1 = cdc.encode(v)
                    u1 = cdc.decode(b1)
            except Exception as e:  # noqa: BLE001
                sh.violation("entrypoint-raised", exc=type(e).__name__, detail=str(e)[:300], **rec)
                continue
            if not isinstance(b1, bytes):
                sh.violation("encode-not-bytes", detail=type(b1).__name__, **rec)
                continue
            payload = b1[4:] if cfg == "tag" else b1
            try:
                parsed = json.loads(payload)
            except Exception as e:  # noqa: BLE001
                sh.violation("not-json", detail=f"{type(e).__name__}: {e}"[:200], encoded=short(payload, 200), **rec)
                continue
            if canon(parsed, strict=True) != canon(v, strict=True) or not same(u1, v, strict=True):
                sh.violation("json-differs-from-marshal", encoded=short(payload, 200), decoded=short(u1, 200), **rec)
            if not (b1 == bytes(b2) == bytes(b3)):
                sh.violation("entrypoints-disagree-bytes", detail=f"codec={short(b1, 120)} api={short(b2, 120)} composed={short(b3, 120)}", **rec)


def run_case(sh, i, plan):
    rng = case_rng(sh, i)
    clear_typelib_caches(also_typing=True)
    opts = U.Opts(depth=rng.choice([1, 2, 2, 3, plan["depth"]]), str_keys_only=True, json_ints=True)
    prog, gen, roots = make_program(rng, opts, nroots=3)
    vg = U.ValueGen(rng, big_ints=False)
    coders = {"stdlib": Coder("stdlib"), "tag": Coder("tag")}
    try:
        for spec in roots:
            for _ in range(plan["values"]):
                v = vg.value(spec)
                one_value(sh, spec, v, prog, rng, coders)
                if rng.random() < 0.5:
                    # the same value as an instance of a strict subclass of T's class: agreement of the entry points only (what is
                    #   restored is an instance of T)
                    v2 = subclass_instance(spec, v, rng)
                    if v2 is not None:
                        sh.count("subclass_instance_values")
                        one_value(sh, spec, v2, prog, rng, coders, judge=False)
            if i % 80 == 0:
                sh.sample({"type": spec.src})
        # bytes-like T carried verbatim
        if i % 4 == 0:
            for T, mk in ((bytes, bytes), (bytearray, bytearray), (memoryview, memoryview)):
                raw = rng.choice([b"", b"abc", b"\xff\xfe\x00", b'{"a": 1}', b"[1,2", "é".encode(), bytes(range(256)),
                                  # payloads a "helpful" decoder might trim: byte-order marks, their single bytes, whitespace, NULs
                                  b"\xef\xbb\xbfpayload", b"\xbfQue?", b"\xbb\xbb\xef", b"\xff\xfeab", b" x ", b"\n", b"\x00abc\x00", b"\r\n[1]\r\n",
                                  bytes(rng.randrange(256) for _ in range(rng.randrange(1, 12))), bytes([rng.choice([0xEF, 0xBB, 0xBF, 0x20, 0x00, 0xFF])]) * rng.randrange(1, 4) + b"z"])
                v = mk(raw)
                sh.count("bytes_types_checked")
                try:
                    cdc = typelib.codec(T)
                    e = cdc.encode(v)
                    d = cdc.decode(e)
                except Exception as ex:  # noqa: BLE001
                    sh.violation("bytes-type-raised", type_src=T.__name__, value=short(raw, 80), exc=type(ex).__name__, detail=str(ex)[:200])
                    continue
                if bytes(e) != raw or bytes(d) != raw or not isinstance(d, T):
                    sh.violation("bytes-not-verbatim", type_src=T.__name__, value=short(raw, 80), encoded=short(e, 80), decoded=short(d, 80))
                # ... also when the payload arrives in another bytes-like carrier than T, and when T is wrapped / given by reference
                bytes_like_wrapped(sh, rng, prog, T, raw)
            passthrough_roots(sh, rng, coders)
    finally:
        prog.drop()


def run_shard(sh):
    plan = PLAN[sh.tier]
    sh.run_cases(per_shard(plan["programs"], sh.nshards, sh.shard), lambda i: run_case(sh, i, plan))
