"""C18 - serdes.iteritems / itervalues are lossless and non-destructive."""
from __future__ import annotations

import collections
import dataclasses
import types
import typing

from typelib import serdes

from vlib.oracles import canon, short
from vlib.workload import case_rng, per_shard

ID = "C18"
LEVEL = "exploration"
RULE = ("generated objects of every kind the property lists: dict/OrderedDict/MappingProxyType/custom Mapping; dataclass (plain, "
        "slots, with private and ClassVar fields), NamedTuple (incl. 2-element first field), annotated plain class, slots-only "
        "and vars-only classes; list/tuple/set/deque of pairs and of non-pairs; one-shot iterators and generators (harness "
        "class carrying its expected content), empty and non-empty; str/bytes. one evaluation = one iteritems or itervalues "
        "call compared with the reference enumeration computed from a snapshot; distinct = (class kind, canonical content)")
ASSUMPTIONS = [
    "a 'pair' is a 2-tuple or 2-list; iterables whose elements are 2-character strings or 2-element sets/dicts, and sequences whose first element is a pair but later ones are not, are outside the domain (the library decides by peeking at the first element and documents it)",
    "plain classes with ClassVar annotations are outside the domain (whether a ClassVar is a 'field' of a non-dataclass is not defined by the statement)",
]
PLAN = {"quick": dict(cases=60000), "thorough": dict(cases=2000000)}
FLOORS = {"quick": {"iteritems_checked": 50000, "itervalues_checked": 50000, "oneshot_checked": 8000, "kinds": 50},
          "thorough": {"iteritems_checked": 1500000, "itervalues_checked": 1500000, "oneshot_checked": 250000, "kinds": 50}}


@dataclasses.dataclass
class DC:
    a: int
    b: typing.Any
    c: typing.Any = None


@dataclasses.dataclass
class FalsyDC:
    """A structured object that is falsy (it wraps an empty list and has a length): still an object with fields."""
    rows: typing.Any
    total: typing.Any = 0

    def __len__(self):
        return 0


class FalsyPlain:
    a: typing.Any
    b: typing.Any

    def __init__(self, a, b):
        self.a, self.b = a, b

    def __bool__(self):
        return False


class FalsyNT(typing.NamedTuple):
    first: typing.Any
    second: typing.Any

    def __bool__(self):
        return False


@dataclasses.dataclass
class DCPrivate:
    a: typing.Any
    _hidden: int = 5
    CONST: typing.ClassVar[int] = 3
    z: typing.Any = 0


@dataclasses.dataclass(slots=True)
class DCSlots:
    x: typing.Any
    y: typing.Any


class NT(typing.NamedTuple):
    first: typing.Any
    second: typing.Any


class NT1(typing.NamedTuple):
    only: typing.Any


class NT3(typing.NamedTuple):
    p: typing.Any
    q: typing.Any
    r: typing.Any = 0


UNT2 = collections.namedtuple("UNT2", ["first", "second"])  # un-annotated named tuples
UNT1 = collections.namedtuple("UNT1", ["only"])
UNT3 = collections.namedtuple("UNT3", ["p", "q", "r"], defaults=[0])


class Plain:
    a: int
    b: str
    _p: int

    def __init__(self, a, b):
        self.a, self.b, self._p = a, b, 9

    def method(self):
        return 1


class PlainChild(Plain):
    """Inherits the annotated fields a, b and declares one of its own."""

    c: float

    def __init__(self, a, b, c):
        super().__init__(a, b)
        self.c = c


class PlainChildRedeclares(Plain):
    """Re-declares an inherited field with another annotation and adds one."""

    b: bytes
    d: int

    def __init__(self, a, b, d):
        super().__init__(a, b)
        self.d = d


@dataclasses.dataclass
class DCChild(DC):
    extra: int = 0


class SlotsOnly:
    __slots__ = ("a", "_b", "c")

    def __init__(self, a, c):
        self.a, self._b, self.c = a, 1, c


class SlotsArgs:
    """Slots-only, nothing else to learn the fields from (no annotations, no named constructor parameters)."""

    __slots__ = ("x", "y")

    @classmethod
    def of(cls, x, y):
        o = cls()  # no constructor parameters at all: a variadic signature would be (mis)read as fields, which is documented behaviour
        o.x, o.y = x, y
        return o


class SlotsArgsChild(SlotsArgs):
    """Declares no __slots__ of its own (so it has a __dict__), its fields live in the inherited slots."""


class VarsOnly:
    def __init__(self):
        self._private = 1

    @classmethod
    def of(cls, **kw):
        o = cls()
        o.__dict__.update(kw)
        return o


class CustomMapping(collections.abc.Mapping):
    def __init__(self, d):
        self._d = d

    def __getitem__(self, k):
        return self._d[k]

    def __iter__(self):
        return iter(self._d)

    def __len__(self):
        return len(self._d)


class ViewDict(dict):
    """A dict subclass whose own protocol (items / values / keys / iteration / subscription) presents the stored data differently
    (reversed order, values wrapped): the pairs of THIS mapping are what its items() gives, not what the raw storage holds."""

    def __iter__(self):
        return iter(reversed(list(dict.keys(self))))

    def keys(self):
        return list(iter(self))

    def __getitem__(self, k):
        return ("seen", dict.__getitem__(self, k))

    def values(self):
        return [self[k] for k in self]

    def items(self):
        return [(k, self[k]) for k in self]


class FalsyMapping(CustomMapping):
    def __bool__(self):
        return False


class SharedCursor:
    """An iterable that is not its own iterator, yet one-shot: every iter() hands out the SAME underlying stream (a cursor wrapper, a
    file-like object). What was taken from it is gone."""

    def __init__(self, items):
        self._cursor = iter(list(items))

    def __iter__(self):
        return self._cursor


class OneShot:
    """A one-shot iterator that knows what it will yield."""

    def __init__(self, items):
        self.expected = list(items)
        self._it = iter(self.expected)
        self.consumed = 0

    def __iter__(self):
        return self

    def __next__(self):
        v = next(self._it)
        self.consumed += 1
        return v


def gen_of(items):
    yield from items


def atom(rng):
    return rng.choice([0, 1, -5, 2.5, "x", "ab", "", None, True, (1, 2), [1, 2], "k", b"by", {"q": 1}, (1, 2, 3), [], frozenset({1, 2})])


def nonpair_atom(rng):
    """An element that can never be mistaken for a pair (not a 2-element collection)."""
    return rng.choice([0, 1, -5, 2.5, "x", "abc", "", None, True, (1, 2, 3), [1], (), "hello", b"b", {"q": 1, "r": 2, "s": 3}])


def pair(rng):
    k = rng.choice(["k", "a", 1, None, ("t", 1), 2.5, "ab"])
    v = atom(rng)
    return rng.choice([tuple, list])((k, v))


def make(rng):
    """(kind, factory() -> fresh object, ref_items, ref_values) ; refs are lists."""
    r = rng.random()
    n = rng.choice([0, 0, 1, 1, 2, 3, 5])
    if r < 0.16:
        keys = rng.sample(["a", "b", "c", 1, 2, None, ("t", 1), "ab", 2.5, True], min(n, 6))
        d = {k: atom(rng) for k in keys}
        kind = rng.choice(["dict", "OrderedDict", "MappingProxyType", "CustomMapping", "defaultdict"])
        mk = {"dict": dict, "OrderedDict": collections.OrderedDict, "MappingProxyType": lambda x: types.MappingProxyType(dict(x)),
              "CustomMapping": lambda x: CustomMapping(dict(x)), "defaultdict": lambda x: collections.defaultdict(list, x)}[kind]
        if kind == "OrderedDict" and len(d) >= 2 and rng.random() < 0.6:
            # re-ordered after it was filled: the order of the mapping is its own, not that of the raw insertion
            moves = [(rng.choice(list(d)), rng.random() < 0.5) for _ in range(rng.randrange(1, 3))]

            def reordered():
                od = collections.OrderedDict(d)
                for k, last in moves:
                    od.move_to_end(k, last=last)
                return od

            ref = reordered()
            return "OrderedDict-reordered", reordered, list(ref.items()), list(ref.values())
        if kind == "CustomMapping" and rng.random() < 0.4:
            return "FalsyMapping", (lambda: FalsyMapping(dict(d))), list(d.items()), list(d.values())
        if kind == "dict" and rng.random() < 0.3:
            ref = ViewDict(d)
            return "ViewDict", (lambda: ViewDict(d)), list(ref.items()), list(ref.values())
        return kind, (lambda: mk(d)), list(d.items()), list(d.values())
    if r < 0.40:
        which = rng.choice(["DC", "DCPrivate", "DCSlots", "NT", "NT", "NT1", "NT3", "UNT2", "UNT2", "UNT1", "UNT3", "Plain", "PlainChild", "PlainChildRedeclares", "DCChild", "SlotsOnly", "SlotsArgs", "SlotsArgsChild", "VarsOnly", "FalsyDC", "FalsyPlain", "FalsyNT"])
        a, b, c = atom(rng), atom(rng), atom(rng)
        if which == "DC":
            return which, (lambda: DC(1, a, b)), [("a", 1), ("b", a), ("c", b)], [1, a, b]
        if which == "DCChild":
            return which, (lambda: DCChild(1, a, b, 5)), [("a", 1), ("b", a), ("c", b), ("extra", 5)], [1, a, b, 5]
        if which == "DCPrivate":
            return which, (lambda: DCPrivate(a, 7, b)), [("a", a), ("z", b)], [a, b]
        if which == "DCSlots":
            return which, (lambda: DCSlots(a, b)), [("x", a), ("y", b)], [a, b]
        if which == "NT":  # incl. 2-element first fields
            return which, (lambda: NT(a, b)), [("first", a), ("second", b)], [a, b]
        if which == "UNT2":
            return which, (lambda: UNT2(a, b)), [("first", a), ("second", b)], [a, b]
        if which == "UNT1":
            return which, (lambda: UNT1(a)), [("only", a)], [a]
        if which == "UNT3":
            return which, (lambda: UNT3(a, b, c)), [("p", a), ("q", b), ("r", c)], [a, b, c]
        if which == "NT1":
            return which, (lambda: NT1(a)), [("only", a)], [a]
        if which == "NT3":
            return which, (lambda: NT3(a, b, c)), [("p", a), ("q", b), ("r", c)], [a, b, c]
        if which == "FalsyDC":
            return which, (lambda: FalsyDC(a, b)), [("rows", a), ("total", b)], [a, b]
        if which == "FalsyPlain":
            return which, (lambda: FalsyPlain(a, b)), [("a", a), ("b", b)], [a, b]
        if which == "FalsyNT":
            return which, (lambda: FalsyNT(a, b)), [("first", a), ("second", b)], [a, b]
        if which == "Plain":
            return which, (lambda: Plain(a, b)), [("a", a), ("b", b)], [a, b]
        if which == "SlotsArgs":
            return which, (lambda: SlotsArgs.of(a, b)), [("x", a), ("y", b)], [a, b]
        if which == "SlotsArgsChild":
            return which, (lambda: SlotsArgsChild.of(a, b)), [("x", a), ("y", b)], [a, b]
        if which == "PlainChild":
            return which, (lambda: PlainChild(a, b, c)), [("a", a), ("b", b), ("c", c)], [a, b, c]
        if which == "PlainChildRedeclares":
            return which, (lambda: PlainChildRedeclares(a, b, c)), [("a", a), ("b", b), ("d", c)], [a, b, c]
        if which == "SlotsOnly":
            return which, (lambda: SlotsOnly(a, c)), [("a", a), ("c", c)], [a, c]
        # vars-only instances of ONE class differ in which public attributes they carry and in which order (types.SimpleNamespace too)
        names = rng.sample(["m", "n", "o", "p", "q"], rng.randrange(0, 5))
        kw = {k: rng.choice([a, b, c]) for k in names}
        if rng.random() < 0.3:
            import types as _types

            return "SimpleNamespace", (lambda: _types.SimpleNamespace(**kw)), list(kw.items()), list(kw.values())
        return which, (lambda: VarsOnly.of(**kw)), list(kw.items()), list(kw.values())
    if r < 0.60:
        # re-iterable collections of pairs / non-pairs
        pairs = rng.random() < 0.5
        items = [pair(rng) for _ in range(n)] if pairs else [nonpair_atom(rng) for _ in range(n)]
        kind = rng.choice(["list", "tuple", "deque"])
        mk = {"list": list, "tuple": tuple, "deque": collections.deque}[kind]
        ref_items = [tuple(p) for p in items] if pairs and items else list(enumerate(items))
        if pairs and items:
            ref_items = [p for p in items]
        return kind + ("-pairs" if pairs and items else "-plain"), (lambda: mk(items)), ref_items, list(items)
    if r < 0.68:
        # sets (hashable, order = iteration order of the very object -> reference taken from a twin built identically)
        pairs = rng.random() < 0.5
        items = [(rng.choice("abcdef"), rng.randrange(5)) for _ in range(n)] if pairs else [rng.choice([0, 1, 7, "x", "abc", 2.5, None, (1, 2, 3)]) for _ in range(n)]
        kind = rng.choice(["set", "frozenset"])
        mk = set if kind == "set" else frozenset
        obj = mk(items)
        order = list(obj)
        ref_items = order if pairs and order else list(enumerate(order))
        return kind + ("-pairs" if pairs and order else "-plain"), (lambda: obj), ref_items, order
    if r < 0.92:
        pairs = rng.random() < 0.5
        items = [pair(rng) for _ in range(n)] if pairs else [nonpair_atom(rng) for _ in range(n)]
        kind = rng.choice(["OneShot", "generator", "iter(list)", "map", "SharedCursor"])
        mk = {"OneShot": OneShot, "generator": gen_of, "iter(list)": lambda x: iter(list(x)), "map": lambda x: map(lambda e: e, list(x)), "SharedCursor": SharedCursor}[kind]
        ref_items = list(items) if pairs and items else list(enumerate(items))
        return kind + ("-pairs" if pairs and items else "-plain"), (lambda: mk(items)), ref_items, list(items)
    s = rng.choice(["", "a", "string", "日本", "ab"])
    if rng.random() < 0.5:
        return "str", (lambda: s), list(enumerate(s)), list(s)
    b = s.encode()
    return "bytes", (lambda: b), list(enumerate(b)), list(b)


def same_seq(a, b):
    if len(a) != len(b):
        return False
    return all(canon(tuple(x) if isinstance(x, list) and len(x) == 2 and False else x, strict=True) == canon(y, strict=True) for x, y in zip(a, b))


def norm_items(items):
    """(k, v) pairs as tuples for comparison (a pair given as a 2-list is still that pair)."""
    out = []
    for p in items:
        try:
            k, v = p
        except Exception:  # noqa: BLE001
            return None
        out.append((canon(k, strict=True), canon(v, strict=True)))
    return out


def canaries(sh):
    sh.canary("lost-first", norm_items([("b", 2)]) != norm_items([("a", 1), ("b", 2)]))
    sh.canary("index-vs-field", norm_items([(0, 1)]) != norm_items([("a", 1)]))
    sh.canary("pairs-equal", norm_items([["a", 1]]) == norm_items([("a", 1)]))


def run_shard(sh):
    plan = PLAN[sh.tier]
    n = per_shard(plan["cases"], sh.nshards, sh.shard)

    def case(i):
        rng = case_rng(sh, i)
        kind, factory, ref_items, ref_values = make(rng)
        sh.see("kinds", kind)
        for fn_name, ref in (("iteritems", ref_items), ("itervalues", ref_values)):
            x = factory()
            oneshot = hasattr(x, "__next__")
            snap = None if oneshot else canon(x, strict=True)
            sh.eval((kind, fn_name, canon(ref, strict=True)))
            try:
                got = list(getattr(serdes, fn_name)(x))
            except Exception as e:  # noqa: BLE001
                sh.violation("raised", fn=fn_name, kind_of_x=kind, x=short(ref, 200), exc=type(e).__name__, detail=str(e)[:200])
                continue
            sh.count(fn_name + "_checked")
            if oneshot:
                sh.count("oneshot_checked")
            if fn_name == "iteritems":
                ok = norm_items(got) is not None and norm_items(got) == norm_items(ref)
            else:
                ok = [canon(g, strict=True) for g in got] == [canon(r_, strict=True) for r_ in ref]
            if not ok:
                sh.violation("wrong-enumeration", fn=fn_name, kind_of_x=kind, expected=short(ref, 300), got=short(got, 300))
            if snap is not None and canon(x, strict=True) != snap:
                sh.violation("input-modified", fn=fn_name, kind_of_x=kind, x=short(ref, 200))
        if i % 5000 == 0:
            sh.sample({"kind": kind, "items": short(ref_items, 120)})

    sh.run_cases(n, case)
