"""C06 - marshalled output is plain JSON-compatible data, freshly built; Literal non-members rejected."""
from __future__ import annotations

import copy

import collections
import datetime
import enum

import pendulum
import typelib

from vlib import universe as U
from vlib.oracles import canon, describe, json_accepts, json_plain, localize, mutable_ids, short
from vlib.workload import case_rng, clear_typelib_caches, make_program, per_shard, quiet

ID = "C06"
LEVEL = "exploration"
RULE = ("fully annotated, bytes-free types from grammar U x valid values, a third of them with subclass instances swapped in "
        "(IntEnum/bool for int, str subclasses, pendulum DateTime/Date/Time/Duration, OrderedDict/deque/custom Mapping & "
        "Sequence containers); one evaluation = one marshal call judged by the closure oracle (exact builtin classes at every "
        "node, stdlib json accepts it, repeat call equal, no mutable container shared with the input, input unchanged); plus "
        "Literal types x member / non-member inputs; plus the repository's own test-suite run under a marshal monitor (plain output / repeatability / input untouched on every marshal call and routine call the suite makes); distinct = (type source, canonical value)")
ASSUMPTIONS = [
    "Any / unparameterised containers are pass-through by contract and are not generated",
    "subclass instances are only swapped in at union-free positions (a union would dispatch them by the first-acceptor rule, C08)",
    "'same on every call' is judged on the same live object in one process (set iteration order is stable there)",
]
PLAN = {"quick": dict(programs=5000, depth=3, values=8), "thorough": dict(programs=40000, depth=5, values=14)}
FLOORS = {"quick": {"literal_field_nonmembers": 400, "compound_key_mappings": 2000, "suite_marshal_outputs_judged": 150, "suite_tests_passed": 1400, "marshal_checked": 100000, "subclass_values": 12000, "literal_nonmember_checked": 5000, "shapes": 5000},
          "thorough": {"literal_field_nonmembers": 8000, "compound_key_mappings": 20000, "suite_marshal_outputs_judged": 150, "suite_tests_passed": 1400, "marshal_checked": 900000, "subclass_values": 150000, "literal_nonmember_checked": 30000, "shapes": 30000}}


class MyStr(str):
    pass


class MyInt(enum.IntEnum):
    a = 1
    b = 7
    c = -3


class MyMapping(collections.abc.Mapping):
    def __init__(self, d):
        self._d = dict(d)

    def __getitem__(self, k):
        return self._d[k]

    def __iter__(self):
        return iter(self._d)

    def __len__(self):
        return len(self._d)


class MySeq(collections.abc.Sequence):
    def __init__(self, items):
        self._l = list(items)

    def __getitem__(self, i):
        return self._l[i]

    def __len__(self):
        return len(self._l)


def subclassify(spec, v, rng, p=0.7):
    """Swap subclass instances in at union-free positions (returns a new value)."""
    k = spec.kind
    if k in ("wrap",):
        return subclassify(spec.kids[0], v, rng, p)
    if k in ("union", "rec", "literal", "enum"):
        return v
    if rng.random() > p and k == "scalar":
        return v
    if k == "scalar":
        n = spec.info["name"]
        try:
            if n == "int":
                return rng.choice([MyInt.a, MyInt.b, True, False, MyInt.c])
            if n == "str":
                return MyStr(v)
            if n == "datetime":
                return pendulum.instance(v)
            if n == "date":
                return pendulum.date(v.year, v.month, v.day)
            if n == "time":
                return pendulum.time(v.hour, v.minute, v.second, v.microsecond).replace(tzinfo=v.tzinfo)
            if n == "timedelta" and abs(v.days) < 10**6:
                return pendulum.duration(days=v.days, seconds=v.seconds, microseconds=v.microseconds)
        except Exception:  # noqa: BLE001
            return v
        return v
    if k == "coll":
        items = [subclassify(spec.kids[0], e, rng, p) for e in v]
        cls = spec.info["cls"]
        if cls is list and rng.random() < p:
            return rng.choice([collections.deque, MySeq, tuple])(items)
        try:
            return cls(items)
        except TypeError:
            return v
    if k == "fixed":
        return tuple(subclassify(c, e, rng, p) for c, e in zip(spec.kids, v))
    if k == "mapping":
        ks = spec.kids[0].peel()
        def key(kk):
            # subclass instances as KEYS too (str subclass / IntEnum for int keys)
            if ks.kind == "scalar" and rng.random() < p:
                if ks.info["name"] == "str" and type(kk) is str:
                    return MyStr(kk)
                if ks.info["name"] == "int" and type(kk) is int and kk in (1, 7, -3):
                    return MyInt(kk)
            return kk
        d = {key(kk): subclassify(spec.kids[1], vv, rng, p) for kk, vv in v.items()}
        if rng.random() < p:
            return rng.choice([collections.OrderedDict, MyMapping, lambda x: collections.defaultdict(list, x)])(d)
        return spec.info["cls"](d)
    if k == "struct" and str(spec.info.get("flavour", "")).startswith("typeddict") and type(v) is dict:
        # a TypedDict value is a dict at run time - any dict: ordered, or one with a default factory (whose __missing__ inserts on a
        #   failed subscription). Keys the value leaves out stay left out.
        fields = {f[0]: f[1] for f in spec.info["fields"]}
        d = {kk: (subclassify(fields[kk], vv, rng, p) if kk in fields else vv) for kk, vv in v.items()}
        if rng.random() < p:
            return rng.choice([collections.OrderedDict, lambda x: collections.defaultdict(list, x), lambda x: collections.defaultdict(int, x),
                               lambda x: collections.defaultdict(lambda: None, x)])(d)
        return d
    return v


def closure_failures(m1, m2, v, before):
    """All closure clauses violated by marshal outputs m1 (first call) / m2 (second call) for input v."""
    out = []
    ok, why = json_plain(m1)
    if not ok:
        return [("not-plain", why)]
    ok, why = json_accepts(m1)
    if not ok:
        out.append(("json-rejects", why))
    if canon(m1, strict=True) != canon(m2, strict=True):
        out.append(("unstable", short(m2, 200)))
    shared = set(mutable_ids(m1)) & set(mutable_ids(v))
    if shared:
        out.append(("aliases-input", f"{len(shared)} shared mutable containers"))
    if isinstance(m1, (list, dict)) and m1 is m2:
        out.append(("aliases-previous-result", "second call returned the identical container"))
    else:
        both = set(mutable_ids(m1)) & set(mutable_ids(m2))
        if both:
            out.append(("aliases-previous-result", f"two calls share {len(both)} nested mutable container(s)"))
    if before is not None and canon(v, strict=True) != before:
        out.append(("input-mutated", short(before, 200)))
    return out


def scribble(o, depth=0):
    if depth > 8:
        return
    if isinstance(o, list):
        for e in o:
            scribble(e, depth + 1)
        o.append("<<scribbled>>")
    elif isinstance(o, dict):
        for e in list(o.values()):
            scribble(e, depth + 1)
        o["<<scribbled>>"] = 1


def check_output(sh, tsrc, T, v, prog, tag, spec=None, v0=None):
    before = canon(v, strict=True)
    try:
        with quiet():
            m1 = typelib.marshal(v, t=T)
            m2 = typelib.marshaller(T)(v)
    except RecursionError:
        return
    except Exception as e:  # noqa: BLE001
        if tag == "subclass":
            sh.count("subclass_rejected")  # rejecting a subclass instance is not a closure violation
            return
        if tag == "compound-key":
            sh.count("compound_key_rejected")  # key types beyond U (tuples, frozensets): refusing them is fine, emitting non-JSON is not
            return
        sh.violation("marshal-raised", type_src=tsrc, value=short(v, 300), exc=type(e).__name__, detail=str(e)[:300], tag=tag,
                     module_src=prog.source[-2500:])
        return
    sh.count("marshal_checked")
    fails = closure_failures(m1, m2, v, before)
    # what a caller does to an earlier result must not show in a later one (freshly built on every call)
    if not fails and isinstance(m1, (list, dict)):
        want = canon(m1, strict=True)
        scribble(m1)
        try:
            with quiet():
                m3 = typelib.marshal(v, t=T)
            sh.count("results_mutated_then_remarshalled")
            if canon(m3, strict=True) != want:
                fails = [("unstable-after-result-mutation", short(m3, 200))]
        except Exception as e:  # noqa: BLE001
            fails = [("unstable-after-result-mutation", f"raised {type(e).__name__}")]
    if not fails:
        return
    rec = dict(type_src=tsrc, value=short(v, 300), output=short(m1, 300), tag=tag, module_src=prog.source[-2500:])
    if spec is not None:
        # localise the offending position on the input side; at a union position record the dispatch facts
        from checks.c01 import union_facts

        def bad(sub, x):
            try:
                with quiet():
                    return bool(closure_failures(typelib.marshal(x, t=sub.t), typelib.marshal(x, t=sub.t), x, None))
            except Exception:  # noqa: BLE001
                return False

        path, pos, x = localize(spec, v if tag == "valid" else v0, bad)
        rec.update(pos=path, pos_src=pos.src, pos_desc=describe(pos), pos_value=short(x, 200))
        if pos.kind == "union":
            rec.update(union_facts(pos, x)[0])
    for kind, why in fails:
        sh.violation(kind, where=why, **rec)


def canaries(sh):
    sh.canary("tuple-inside", not json_plain({"a": [1, (2,)]})[0])
    sh.canary("decimal-inside", not json_plain([__import__("decimal").Decimal(1)])[0])
    sh.canary("str-subclass", not json_plain(MyStr("x"))[0])
    sh.canary("enum-key", not json_plain({MyInt.a: 1})[0])
    sh.canary("plain-ok", json_plain({"a": [1, 2.5, None, True, {"b": "c"}]})[0])
    x = [1]
    sh.canary("alias-detected", bool(set(mutable_ids({"k": x})) & set(mutable_ids([x]))))


def run_case(sh, i, plan):
    rng = case_rng(sh, i)
    clear_typelib_caches(also_typing=True)
    opts = U.Opts(depth=rng.choice([1, 2, 2, 3, plan["depth"]]))
    prog, gen, roots = make_program(rng, opts, nroots=3)
    vg = U.ValueGen(rng)
    try:
        for spec in roots:
            tsrc, T = spec.src, spec.t
            sh.see("shapes", U.skeleton(spec))
            for j in range(plan["values"]):
                v = v0 = vg.value(spec)
                tag = "valid"
                if j % 2 == 1:
                    v2 = subclassify(spec, v, rng)
                    if canon(v2, strict=True) != canon(v, strict=True):
                        v, tag = v2, "subclass"
                        sh.count("subclass_values")
                sh.eval((tsrc, canon(v, strict=True)))
                check_output(sh, tsrc, T, v, prog, tag, spec, v0)
            # mappings keyed by compound hashables (beyond U, where keys are scalars): whatever marshal RETURNS is plain JSON data
            if rng.random() < 0.3:
                k1, k2, vs = gen.scalar(hashable=True), gen.scalar(hashable=True), gen.scalar()
                form = rng.choice(["pair", "variadic", "frozenset", "nested"])
                if form == "pair":
                    ksrc, mk = f"tuple[{k1.src}, {k2.src}]", lambda: (vg.value(k1), vg.value(k2))
                elif form == "variadic":
                    ksrc, mk = f"tuple[{k1.src}, ...]", lambda: tuple(vg.value(k1) for _ in range(rng.randrange(0, 4)))
                elif form == "frozenset":
                    ksrc, mk = f"frozenset[{k1.src}]", lambda: frozenset(vg.value(k1) for _ in range(rng.randrange(0, 3)))
                else:
                    ksrc, mk = f"tuple[{k1.src}, tuple[{k2.src}, {k1.src}]]", lambda: (vg.value(k1), (vg.value(k2), vg.value(k1)))
                msrc = rng.choice(["dict[{}, {}]", "typing.Mapping[{}, {}]", "list[dict[{}, {}]]"]).format(ksrc, vs.src)
                try:
                    MT = prog.ev(msrc)
                    d = {mk(): vg.value(vs) for _ in range(rng.randrange(1, 4))}
                    val = [d] if msrc.startswith("list[") else d
                except Exception:  # noqa: BLE001  (unhashable draw)
                    MT = None
                if MT is not None:
                    sh.count("compound_key_mappings")
                    sh.eval((msrc, "compound-key", canon(val, strict=True)))
                    check_output(sh, msrc, MT, val, prog, "compound-key")
            # Literal membership of a FIELD: a structured value whose Literal-typed field holds a non-member is rejected as well
            for st in [s_ for s_ in spec.walk() if s_.kind == "struct" and not isinstance(s_.t, str)][:3]:
                lit_fields = [(fn_, fs_) for fn_, fs_, _d in st.info["fields"] if fs_.kind == "literal"]
                if not lit_fields:
                    continue
                fname, fspec = rng.choice(lit_fields)
                members = fspec.info["members"]
                cands = [x for x in [0, 1, 2, True, False, None, "a", "1", "zzz", 1.0, 3, "", "True", -1, 77, "x y", "null", [1], {"a": 1}, ["a"]]
                         if not any(type(m_) is type(x) and m_ == x for m_ in members)]
                if not cands:
                    continue
                bad = rng.choice(cands)
                try:
                    inst = vg.value(st)
                    if isinstance(inst, dict):
                        inst = {**inst, fname: bad}
                    elif hasattr(inst, "_replace"):
                        inst = inst._replace(**{fname: bad})
                    else:
                        inst = copy.copy(inst)
                        object.__setattr__(inst, fname, bad)
                except Exception:  # noqa: BLE001
                    continue
                sh.count("literal_field_nonmembers")
                try:
                    with quiet():
                        out = typelib.marshal(inst, t=st.t)
                except ValueError:
                    continue
                except Exception as e:  # noqa: BLE001
                    sh.violation("literal-nonmember-wrong-error", type_src=st.src, field=fname, value=repr(bad), exc=type(e).__name__, module_src=prog.source[-2000:])
                    continue
                sh.violation("literal-nonmember-emitted", type_src=st.src, field=fname, literal=fspec.src, value=repr(bad), output=short(out, 200), module_src=prog.source[-2000:])
            # Literal membership
            for lit in [s for s in spec.walk() if s.kind == "literal"][:2]:
                members = lit.info["members"]
                for x in [0, 1, 2, True, False, None, "a", "1", "zzz", 1.0, 3, "", "True", -1, 77, 10**20, "x y", "null", "[1]",
                          [1], {"a": 1}, {1}, bytearray(b"a"), ["a"]]:  # (unhashable non-members are non-members like any other)
                    is_member = any(type(m) is type(x) and m == x for m in members)
                    try:
                        with quiet():
                            out = typelib.marshal(x, t=lit.t)
                    except ValueError:
                        if is_member:
                            sh.violation("literal-member-rejected", type_src=lit.src, value=repr(x))
                        else:
                            sh.count("literal_nonmember_checked")
                        continue
                    except Exception as e:  # noqa: BLE001
                        if not is_member:
                            sh.violation("literal-nonmember-wrong-error", type_src=lit.src, value=repr(x), exc=type(e).__name__)
                        continue
                    if not is_member:
                        sh.count("literal_nonmember_checked")
                        sh.violation("literal-nonmember-emitted", type_src=lit.src, value=repr(x), output=repr(out))
            if i % 60 == 0:
                sh.sample({"type": tsrc})
    finally:
        prog.drop()


def run_shard(sh):
    plan = PLAN[sh.tier]
    sh.run_cases(per_shard(plan["programs"], sh.nshards, sh.shard), lambda i: run_case(sh, i, plan))

    # second workload: the repository's own test-suite, watched by the spec-free monitors of vlib/suitemon.py (last, so that its
    # cache state cannot shape the cases above); one shard runs it
    if sh.shard == sh.nshards - 1:
        from vlib import suitemon

        suitemon.run_repo_suite(sh, ['marshal'])
    else:
        for k in ['suite_marshal_outputs_judged', 'suite_tests_passed']:
            sh.count(k, 0)
