"""C11 - aliases, NewTypes, qualifiers and string references are transparent."""
from __future__ import annotations

import typelib

from vlib import hostile
from vlib import universe as U
from vlib.oracles import canon, short
from vlib.workload import case_rng, clear_typelib_caches, per_shard, quiet

ID = "C11"
LEVEL = "exploration"
RULE = ("base types T from grammar U x wrapper chains of length 1-3 over {NewType, TypeAliasType(value), TypeAliasType('string'), Final, "
        "ClassVar, 'string reference' (a module-level name, a dotted path into a class \"Holder.Sub.Member\", the type's own source text "
        "\"typing.Dict[uuid.UUID, Model]\"), ForwardRef(module=...)} x positions {root, collection argument, mapping value, tuple member, union "
        "member, class field} (Final at root and on fields, ClassVar at root only); string references issued from the defining module through "
        "call depths 1-6 and from another module by qualified name (with and without that module importing the defining one); one evaluation = one input (valid value, wire form, corrupted wire, hostile "
        "pool) given to the routines for W(T)-at-position and T-at-position, marshal, unmarshal and the codecs built for both (encode, decode, decode of the plain codec's payload), outcomes compared (same canonical result / "
        "same exception class); distinct = (chain, position, base source, canonical input)")
ASSUMPTIONS = [
    "wrappers are only placed where typing accepts them at runtime; names are unique per run (the same-unqualified-name-in-two-modules scenario belongs to C12)",
    "at the class-field position the two classes differ by construction, so the field values are compared",
]
PLAN = {"quick": dict(cases=2750, inputs=14), "thorough": dict(cases=60000, inputs=30)}
FLOORS = {"quick": {"qualified_expression_refs": 60, "pairs_compared": 50000, "chain_position_combos": 120, "string_ref_calls": 5000, "builds": 2200, "codec_pairs_compared": 9000, "bytes_like_pairs_compared": 5000, "bytes_chain_combos": 40, "twin_text_cases": 60},
          "thorough": {"qualified_expression_refs": 1500, "pairs_compared": 2000000, "chain_position_combos": 300, "string_ref_calls": 200000, "builds": 50000, "codec_pairs_compared": 350000, "bytes_like_pairs_compared": 100000, "bytes_chain_combos": 80, "twin_text_cases": 1500}}

NAMED = ["newtype", "alias", "stralias"]
POSITIONS = ["root", "coll", "mapval", "tuple", "union", "union_sibling", "field", "pair", "pair"]


def outcome(fn, *a):
    try:
        with quiet():
            return ("ok", fn(*a))
    except (RecursionError, MemoryError):
        return ("skip", None)
    except Exception as e:  # noqa: BLE001
        return ("raised", type(e).__name__)


def place(prog, gen, spec, pos, tag):
    """(src expression evaluated in the module, field-extractor) for `spec` embedded at `pos`."""
    s = spec.src
    if pos == "root":
        return s, None
    if pos == "coll":
        return f"list[{s}]", None
    if pos == "mapval":
        return f"dict[str, {s}]", None
    if pos == "tuple":
        return f"tuple[int, {s}]", None
    if pos == "union":
        return f"typing.Optional[{s}]", None
    if pos == "union_sibling":
        # a union with ANOTHER user class declared first, one that shares the first field name of the wrapped class (when it has
        # fields): which member answers must not depend on how the second one is spelled. Both placements use the same sibling.
        sib = getattr(prog, "_c11_sibling", None)
        if sib is None:
            base = spec.peel()
            f0 = base.info["fields"][0][0] if base.kind == "struct" and base.info.get("fields") else "zz"
            sib = prog._c11_sibling = prog.fresh("Sib")
            prog.emit(f"@dataclasses.dataclass\nclass {sib}:\n    {f0}: typing.Any = None\n")
        return f"typing.Union[{sib}, {s}]", None
    name = prog.fresh("F" + tag)
    if not hasattr(prog, "_c11_field_default"):
        prog._c11_field_default = prog.rng.random() < 0.5  # the same layout for the plain and the wrapped placement
    if prog._c11_field_default:
        # the member has a DEFAULT (a qualified member with a value on the class is still an instance field)
        prog.emit(f"@dataclasses.dataclass\nclass {name}:\n    g: int = 0\n    f: {s} = None\n")
    else:
        prog.emit(f"@dataclasses.dataclass\nclass {name}:\n    f: {s}\n    g: int = 0\n")
    return name, "f"


def embed_value(pos, v):
    return {"root": v, "coll": [v, v], "mapval": {"k": v}, "tuple": (3, v), "union": v, "union_sibling": v, "field": None, "pair": (v, v)}[pos]


def canaries(sh):
    sh.canary("class-differs", canon([1]) != canon((1,)))
    sh.canary("exception-class-differs", ("raised", "ValueError") != ("raised", "TypeError"))


BYTES_PAYLOADS = [b"", b"abc", b"\xff\xfe\x00", b'{"a": 1}', b"[1, 2", "é".encode(), b"null", b"12"]


def bytes_case(sh, rng):
    """bytes-like T (carried verbatim by codec(T)) behind every wrapper chain, at the root: routines and codecs for W(T) must behave
    like those for T on payloads in every bytes-like carrier and on hostile inputs."""
    prog = U.Program(rng)
    gen = U.Gen(prog, rng, U.Opts(depth=0))
    tname = rng.choice(["bytes", "bytes", "bytearray", "memoryview"])
    base = prog.spec("scalar", tname, name=tname, cls={"bytes": bytes, "bytearray": bytearray, "memoryview": memoryview}[tname])
    n = rng.choice([1, 1, 2, 3])
    chain, w = [], base
    for j in range(n):
        last = j == n - 1
        cands = list(NAMED) + (["final", "classvar", "strref", "fwdref", "strref_dotted", "strexpr"] if last else [])
        kind = rng.choice(cands)
        chain.append(kind)
        w = gen.wrap_of(w, kind)
    prog.build()
    label = "+".join(chain) + "@root[" + tname + "]"
    sh.see("bytes_chain_combos", label)
    try:
        W, T = prog.ev(w.src), base.info["cls"]
        caller = getattr(prog.module, f"_call{rng.randrange(1, 7)}")
        via = isinstance(W, str)

        def call(fn, *a):
            return outcome(caller, fn, *a) if via else outcome(fn, *a)

        rec = dict(chain=label, base_src=tname, wrapped_src=w.src, plain_src=tname, module_src=prog.source[-1500:])
        built = {}
        for what, fn in (("unmarshaller", typelib.unmarshaller), ("marshaller", typelib.marshaller), ("codec", typelib.codec)):
            a, b = outcome(fn, T), call(fn, W)
            if a[0] == "ok" and b[0] != "ok":
                sh.violation("wrapped-does-not-build", which=what, got=short(b), **rec)
                return
            built[what] = (a[1], b[1])
        inputs = [c(pl) for pl in rng.sample(BYTES_PAYLOADS, 4) for c in (bytes, bytearray, memoryview)]
        inputs += [x for x in (hostile.pool_item(rng) for _ in range(6)) if not hasattr(x, "__next__")]
        for x in inputs:
            for what, meth in (("unmarshaller", None), ("marshaller", None), ("codec", "encode"), ("codec", "decode")):
                ra, rb = built[what]
                fa, fb = (getattr(ra, meth), getattr(rb, meth)) if meth else (ra, rb)
                a, b = outcome(fa, x), outcome(fb, x)
                if "skip" in (a[0], b[0]):
                    continue
                sh.count("bytes_like_pairs_compared")
                sh.eval((label, what, meth, repr(bytes(x)) if isinstance(x, (bytes, bytearray, memoryview)) else repr(type(x))))

                def norm(r):
                    return (type(r).__name__, bytes(r)) if isinstance(r, (bytes, bytearray, memoryview)) else canon(r, strict=True)

                same = a[0] == b[0] and (norm(a[1]) == norm(b[1]) if a[0] == "ok" else a[1] == b[1])
                if not same:
                    sh.violation("not-transparent", direction=f"{what}.{meth or 'call'}", input=short(bytes(x) if isinstance(x, memoryview) else x, 120),
                                 plain=short(a, 200), wrapped=short(b, 200), **rec)
    finally:
        prog.drop()


TWIN_LEAVES = {"int": ["1", 2.0, "-7", 5], "str": [1, 2.5, "x"], "float": ["1.5", 2], "decimal.Decimal": ["1.50", 3], "datetime.date": ["2020-01-02"],
               "uuid.UUID": ["12345678-1234-5678-1234-567812345678"], "bool": ["true", 0, "no"], "bytes": ["abc", b"xy"]}
TWIN_TEXTS = ["Item", "list[Item]", "dict[str, Item]", "typing.Optional[Item]", "tuple[Item, Item]", "tuple[Item, ...]", "Row", "list[Row]"]


def twin_text_case(sh, rng):
    """Two (or three) modules each bind `Item` to ANOTHER type and define a string-valued alias with the SAME text (`"list[Item]"`): the
    text of each alias means what it means in the alias's own module, whichever module's alias was used first. Every alias is compared
    with the plain type its text evaluates to in its module, on the inputs of all the modules' leaf types."""
    import sys
    import types

    text = rng.choice(TWIN_TEXTS)
    leaves = rng.sample(sorted(TWIN_LEAVES), rng.choice([2, 2, 3]))
    how = rng.choice(["direct", "direct", "through-newtype", "through-alias", "field", "list-member"])
    mods = []
    try:
        for j, leaf in enumerate(leaves):
            name = f"vtwin_{rng.randrange(16**8):08x}_{j}"
            mod = types.ModuleType(name)
            mod.__file__ = f"/verif/out/generated/{name}.py"
            sys.modules[name] = mod
            src = ("import dataclasses, datetime, decimal, typing, uuid\n"
                   f"Item = {leaf}\n@dataclasses.dataclass\nclass Row:\n    v: {leaf}\n"
                   f"Items = typing.TypeAliasType('Items', {text!r})\nPlain = {text}\n"
                   "NItems = typing.NewType('NItems', Items)\nAItems = typing.TypeAliasType('AItems', Items)\n"
                   "@dataclasses.dataclass\nclass HoldW:\n    f: Items\n@dataclasses.dataclass\nclass HoldT:\n    f: Plain\n")
            exec(compile(src, mod.__file__, "exec", dont_inherit=True), mod.__dict__)
            mods.append((mod, leaf, src))
        pool = [w for leaf in leaves for w in TWIN_LEAVES[leaf]]

        def shape(x):
            x2 = rng.choice(pool)
            if "Row" in text:
                x, x2 = {"v": x}, {"v": x2}
            if text.startswith("list[") or text.endswith("...]"):
                return [x, x2]
            if text.startswith("dict["):
                return {"k": x, "j": x2}
            if text.startswith("tuple["):
                return [x, x2]
            return x

        order = list(mods)
        rng.shuffle(order)
        sh.count("twin_text_cases")
        sh.see("twin_text_combos", f"{text}:{how}")
        for mod, leaf, src in order:
            if how == "through-newtype":
                W, T, wrapv = mod.NItems, mod.Plain, lambda v: v
            elif how == "through-alias":
                W, T, wrapv = mod.AItems, mod.Plain, lambda v: v
            elif how == "field":
                W, T, wrapv = mod.HoldW, mod.HoldT, lambda v: {"f": v}
            elif how == "list-member":
                W, T, wrapv = list[mod.Items], list[mod.Plain], lambda v: [v]
            else:
                W, T, wrapv = mod.Items, mod.Plain, lambda v: v
            for x in pool:
                w = wrapv(shape(x))
                sh.eval(("twin-text", text, how, leaf, repr(w)))
                a, b = outcome(typelib.unmarshal, T, w), outcome(typelib.unmarshal, W, w)
                sh.count("twin_text_pairs_compared")
                if a[0] == "skip" or b[0] == "skip":
                    continue
                ca = canon(vars(a[1]) if how == "field" and a[0] == "ok" else a[1], strict=True) if a[0] == "ok" else a
                cb = canon(vars(b[1]) if how == "field" and b[0] == "ok" else b[1], strict=True) if b[0] == "ok" else b
                if a[0] != b[0] or ca != cb:
                    sh.violation("same-text-alias-resolved-elsewhere", alias_text=text, how=how, module_leaf=leaf, modules_in_order=[m[1] for m in order],
                                 input=short(w, 200), plain=short(a, 200), wrapped=short(b, 200), module_src=src)
                    return
                if a[0] == "ok" and how != "field":
                    ma, mb = outcome(lambda v: typelib.marshal(v, t=T), a[1]), outcome(lambda v: typelib.marshal(v, t=W), a[1])
                    if ma[0] != mb[0] or (ma[0] == "ok" and canon(ma[1], strict=True) != canon(mb[1], strict=True)):
                        sh.violation("same-text-alias-resolved-elsewhere", alias_text=text, how=how, module_leaf=leaf, side="marshal",
                                     modules_in_order=[m[1] for m in order], input=short(a[1], 200), plain=short(ma, 200), wrapped=short(mb, 200), module_src=src)
                        return
    finally:
        for mod, _, _ in mods:
            sys.modules.pop(mod.__name__, None)


def te_alias_case(sh, rng):
    """The alias is built with `typing_extensions.TypeAliasType` (the library depends on typing_extensions and uses that spelling
    itself, `ctx.KeyT`). Where that class is distinct from `typing.TypeAliasType` (3.12 with the installed typing_extensions) the
    alias must be as transparent as one built with the typing class."""
    import typing

    import typing_extensions

    if typing_extensions.TypeAliasType is getattr(typing, "TypeAliasType", None):
        sh.count("te_alias_same_class_skipped")
        return
    leaf = rng.choice(sorted(TWIN_LEAVES))
    text = rng.choice(["Item", "list[Item]", "dict[str, Item]", "typing.Optional[Item]"])
    ns = {"typing": typing, "Item": eval(leaf, {"decimal": __import__("decimal"), "datetime": __import__("datetime"), "uuid": __import__("uuid")})}
    T = eval(text, ns)
    W = typing_extensions.TypeAliasType("TEAlias", T)
    sh.count("te_alias_cases")
    for x in TWIN_LEAVES[leaf]:
        w = [x] if text.startswith("list[") else ({"k": x} if text.startswith("dict[") else x)
        sh.eval(("te-alias", text, leaf, repr(w)))
        a, b = outcome(typelib.unmarshal, T, w), outcome(typelib.unmarshal, W, w)
        if a[0] == "skip" or b[0] == "skip":
            continue
        same = a[0] == b[0] and (canon(a[1], strict=True) == canon(b[1], strict=True) if a[0] == "ok" else a[1] == b[1])
        if not same:
            sh.violation("alias-spelling-not-transparent", alias_class="typing_extensions.TypeAliasType", distinct_from_typing=True, alias_of=f"{text} with Item = {leaf}",
                         input=short(w, 200), plain=short(a, 200), wrapped=short(b, 200))
            return


def run_case(sh, i, plan):
    rng = case_rng(sh, i)
    clear_typelib_caches(also_typing=True)
    if rng.random() < 0.08:
        return bytes_case(sh, rng)
    if rng.random() < 0.05:
        return twin_text_case(sh, rng)
    if rng.random() < 0.02:
        return te_alias_case(sh, rng)
    opts = U.Opts(depth=rng.choice([0, 1, 1, 2]), wrappers=False, recursive=False)
    prog = U.Program(rng)
    gen = U.Gen(prog, rng, opts)
    base = gen.type(opts.depth) if rng.random() < 0.7 else gen.struct(1)
    pos = rng.choice(POSITIONS)
    force_root_ref = rng.random() < 0.25
    if force_root_ref:
        pos = "root"
    # wrapper chain
    n = rng.choice([1, 1, 2, 3])
    chain = []
    w = base
    for j in range(n):
        last = j == n - 1
        cands = list(NAMED)
        if last and pos == "root":
            cands += ["final", "classvar", "strref", "fwdref", "strref", "fwdref", "strref_dotted", "strexpr"]
        elif last and pos == "field":
            cands += ["final", "strref"]
        elif last:
            cands += ["strref", "fwdref"]
        kind = rng.choice(cands)
        if last and force_root_ref:
            kind = rng.choice(["strref", "strref", "fwdref", "strref_dotted", "strref_dotted", "strexpr", "strexpr"])
        if kind == "strexpr" and pos == "root" and rng.random() < 0.6:
            # the reference is the text of a QUALIFIED form: "typing.ClassVar[X]" / "typing.Final[X]"
            q = rng.choice(["classvar", "final"])
            chain.append(q)
            w = gen.wrap_of(w, q)
            sh.count("qualified_expression_refs")
        chain.append(kind)
        w = gen.wrap_of(w, kind)
    if pos == "pair":
        # the plain type AND its wrapped form in one type graph (the plain one first, or last)
        if rng.random() < 0.5:
            wsrc, tsrc = f"tuple[{base.src}, {w.src}]", f"tuple[{base.src}, {base.src}]"
        else:
            wsrc, tsrc = f"tuple[typing.Optional[{w.src}], {base.src}]", f"tuple[typing.Optional[{base.src}], {base.src}]"
        wfield = tfield = None
    else:
        wsrc, wfield = place(prog, gen, w, pos, "w")
        tsrc, tfield = place(prog, gen, base, pos, "t")
    other = None
    prog.build()
    label = "+".join(chain) + "@" + pos
    sh.see("chain_position_combos", label)
    qualified = False
    try:
        W = prog.ev(wsrc)
        T = prog.ev(tsrc)
        # a root string reference is issued from inside the defining module (through N nested calls), or from another
        # module by its qualified name
        depth = rng.randrange(1, 7)
        caller = getattr(prog.module, f"_call{depth}")
        via_caller = isinstance(W, str)
        if via_caller and W.replace(".", "").isidentifier() and not hasattr(__import__("builtins"), W.split(".")[0]) and rng.random() < 0.35:
            other = U.Program(rng)
            if rng.random() < 0.5:
                other.imports.append(prog)  # else: the defining module is loaded, but not bound in the caller's namespace
            else:
                label += "(not-imported)"
            other.build()
            first = W.split(".")[0]
            W = f"{prog.name}.{W}"
            caller = getattr(other.module, f"_call{depth}")
            if rng.random() < 0.4:
                # the issuing function has a LOCAL variable (and its module a global) called like the referenced name, bound to something
                # else: the reference names its module explicitly, so neither may capture it
                exec(f"{first} = bytes\ndef _shadowing_caller(fn, *a, **k):\n    {first} = int\n    return fn(*a, **k) if {first} is int else None\n",  # noqa: S102
                     other.module.__dict__)
                caller = other.module._shadowing_caller
                label += "(shadowed)"
                sh.count("shadowed_qualified_refs")
            qualified = True
            label += "(qualified)"

        def call(fn, t, *a):
            if via_caller:
                sh.count("string_ref_calls")
                return outcome(caller, fn, t, *a)
            return outcome(fn, t, *a)

        sh.count("builds")
        bt = outcome(typelib.unmarshaller, T)
        bw = call(typelib.unmarshaller, W)
        mt = outcome(typelib.marshaller, T)
        mw = call(typelib.marshaller, W)
        rec = dict(chain=label, base_src=base.src, wrapped_src=wsrc, plain_src=tsrc, module_src=prog.source[-2500:])
        for what, a, b in (("unmarshaller", bt, bw), ("marshaller", mt, mw)):
            if a[0] == "ok" and b[0] != "ok":
                sh.violation("wrapped-does-not-build", which=what, got=short(b), **rec)
        if bt[0] != "ok" or bw[0] != "ok" or mt[0] != "ok" or mw[0] != "ok":
            return
        um_t, um_w, mm_t, mm_w = bt[1], bw[1], mt[1], mw[1]
        ct, cw = outcome(typelib.codec, T), call(typelib.codec, W)
        if ct[0] == "ok" and cw[0] != "ok":
            sh.violation("wrapped-does-not-build", which="codec", got=short(cw), **rec)
        codecs = (ct[1], cw[1]) if ct[0] == "ok" and cw[0] == "ok" and pos != "field" else None
        vg = U.ValueGen(rng)
        inputs = []
        for _ in range(max(2, plan["inputs"] // 4)):
            v = vg.value(base)
            ev = embed_value(pos, v)
            if pos == "field":
                wire_in = {"f": outcome(typelib.marshal, v)[1] if True else None}
                try:
                    with quiet():
                        wire_in = {"f": typelib.marshal(v, t=base.t), "g": 2}
                except Exception:  # noqa: BLE001
                    continue
                inputs.append(("u", wire_in))
                inputs.extend(("u", c) for c in hostile.corruptions(wire_in, rng, limit=4))
                # marshal: instances of each class
                try:
                    inputs.append(("m2", (T(f=v), W(f=v))))
                except Exception:  # noqa: BLE001
                    pass
                continue
            inputs.append(("m", ev))
            inputs.append(("u", ev))
            mo = outcome(mm_t, ev)
            if mo[0] == "ok":
                inputs.append(("u", mo[1]))
                inputs.extend(("u", c) for c in hostile.corruptions(mo[1], rng, limit=4))
        inputs.extend(("u", hostile.pool_item(rng)) for _ in range(plan["inputs"] // 3))
        inputs.extend(("m", hostile.pool_item(rng)) for _ in range(plan["inputs"] // 6))
        for direction, x in inputs:
            if hasattr(x, "__next__"):
                continue
            try:
                key = canon(x, strict=True)
            except Exception:  # noqa: BLE001
                key = repr(type(x))
            sh.eval((label, base.src, direction, key))
            if direction == "u":
                a = outcome(um_t, x)
                b = call(typelib.unmarshal, W, x) if via_caller else outcome(um_w, x)
            elif direction == "m":
                a = outcome(mm_t, x)
                if via_caller:
                    sh.count("string_ref_calls")
                    b = outcome(caller, lambda val, ref: typelib.marshal(val, t=ref), x, W)
                else:
                    b = outcome(mm_w, x)
            else:
                a, b = outcome(mm_t, x[0]), outcome(mm_w, x[1])
            if a[0] == "skip" or b[0] == "skip":
                continue
            sh.count("pairs_compared")
            same = a[0] == b[0]
            if same and a[0] == "ok":
                ra, rb = a[1], b[1]
                if pos == "field" and direction == "u":
                    ra, rb = (getattr(ra, "f", ra), getattr(ra, "g", None)), (getattr(rb, "f", rb), getattr(rb, "g", None))
                same = canon(ra, strict=True) == canon(rb, strict=True)
            elif same:
                same = a[1] == b[1]
            if not same:
                sh.violation("not-transparent", direction=direction, input=short(x, 250), plain=short(a, 250), wrapped=short(b, 250), **rec)
            # the codecs built for both: encode the value / decode the payload, and decode what the plain codec encoded
            if codecs is not None and (direction == "m" or isinstance(x, (bytes, bytearray))):
                fa, fb = (codecs[0].encode, codecs[1].encode) if direction == "m" else (codecs[0].decode, codecs[1].decode)
                ca, cb = outcome(fa, x), outcome(fb, x)
                sh.count("codec_pairs_compared")
                pairs = [(ca, cb)]
                if direction == "m" and ca[0] == "ok" and isinstance(ca[1], (bytes, bytearray, memoryview)):
                    pairs.append((outcome(codecs[0].decode, ca[1]), outcome(codecs[1].decode, ca[1])))
                for qa, qb in pairs:
                    if "skip" in (qa[0], qb[0]):
                        continue
                    ok = qa[0] == qb[0] and (canon(qa[1], strict=True) == canon(qb[1], strict=True) if qa[0] == "ok" else qa[1] == qb[1])
                    if not ok:
                        sh.violation("not-transparent", direction="codec-" + direction, input=short(x, 250), plain=short(qa, 250), wrapped=short(qb, 250), **rec)
        if i % 100 == 0:
            sh.sample({"chain": label, "base": base.src, "wrapped": wsrc})
    finally:
        prog.drop()
        if other is not None:
            other.drop()


def run_shard(sh):
    plan = PLAN[sh.tier]
    sh.run_cases(per_shard(plan["cases"], sh.nshards, sh.shard), lambda i: run_case(sh, i, plan))
