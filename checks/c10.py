"""C10 - bound callables get every argument converted per its own parameter."""
from __future__ import annotations

import decimal
import fractions
import inspect
import itertools
import sys
import types

import typelib
from typelib import binding

from vlib.oracles import canon, short
from vlib.workload import case_rng, clear_typelib_caches, per_shard, quiet

ID = "C10"
LEVEL = "exploration"
RULE = ("signatures over the five parameter kinds in legal order: all 32 kind-presence combinations x 1-2 parameters per present "
        "named kind (<=5 parameters in quick, more in thorough), pairwise-distinguishable annotations (int/Decimal/float/Fraction/str; in half the "
        "cases also composite ones: list/dict/tuple/set/Optional/Union/a dataclass, explicitly quoted annotations), callee modules with and "
        "without postponed evaluation of annotations (PEP 563), "
        "optional defaults and unannotated parameters; every call shape inspect.Signature.bind accepts (each positional-or-keyword "
        "parameter passed either way, 0-2 extra varargs, 0-2 extra kwargs, defaults omitted) plus rejected shapes; as plain functions, "
        "bound methods, static/class methods, callable instances and classes, through bind() and wrap(); one evaluation = one call whose "
        "received arguments were compared with Signature.bind + per-parameter unmarshallers; distinct = (signature, call shape, variant)")
ASSUMPTIONS = [
    "the callee is a synthesised recording function (returns what it received, with classes); the reference is inspect.Signature.bind plus independently built unmarshallers",
    "TypeError parity is judged on 'raises TypeError', not on the message; parameter names avoid binder internals",
]
EXHAUSTIVE = {"quick": True, "thorough": True}
PLAN = {"quick": dict(max_per_kind=1, variants=("function", "method", "instance", "class", "decorated", "coroutine"), shapes_cap=60, extra_sigs=300),
        "thorough": dict(max_per_kind=2, variants=("function", "method", "static", "classmethod", "instance", "class", "decorated", "coroutine"), shapes_cap=400, extra_sigs=6000)}
FLOORS = {"quick": {"calls_compared": 20000, "rows_hit": 32, "binder_classes_hit": 14, "rejected_shapes_checked": 2500, "wrap_metadata_checked": 300,
                    "postponed_annotation_modules": 100, "calls_with_composite_annotations": 3000},
          "thorough": {"calls_compared": 600000, "rows_hit": 32, "binder_classes_hit": 15, "rejected_shapes_checked": 60000, "wrap_metadata_checked": 5000,
                       "postponed_annotation_modules": 1500, "calls_with_composite_annotations": 100000}}

ANNS = ["int", "decimal.Decimal", "float", "fractions.Fraction", "str"]
# composite annotations (each distinguishable from the others by the class it produces) with sample inputs
COMPOSITE = {
    "list[int]": [["1", "2"], "[3, 4]", ("5",)],
    "typing.Optional[decimal.Decimal]": ["1.5", None, 2],
    "dict[str, float]": [{"a": "1"}, '{"b": 2}', [("c", "3")]],
    "tuple[int, ...]": [["1", "2"], "[3]", ()],
    "Pt": [{"x": "1"}, '{"x": 2}', [("x", "3")]],
    "typing.Union[int, str]": ["1", "x", 2.0],
    "set[fractions.Fraction]": [["1/2", "3"], "[1]"],
    "'decimal.Decimal'": ["1", 2],            # an explicitly quoted annotation
    "'list[Pt]'": [[{"x": "1"}], '[{"x": 2}]'],
}
PRELUDE = "import dataclasses, typing, decimal, fractions\n@dataclasses.dataclass\nclass Pt:\n    x: int\n"
NS = {"decimal": decimal, "fractions": fractions}
_N = [0]


def make_signature(rng, present, max_per_kind, force_counts=None, composite=False):
    """present: (pos_only, pos_or_kw, var_pos, kw_only, var_kw) booleans. Returns list of (name, kind, annotation|None, default|None)."""
    params = []
    anns = list(ANNS)
    rng.shuffle(anns)
    k = 0

    def ann():
        nonlocal k
        if composite and rng.random() < 0.4:
            return rng.choice(list(COMPOSITE))
        a = anns[k % len(anns)]
        k += 1
        return a if rng.random() < 0.85 else None

    def dflt(a, base):
        # defaults need not be hashable: mutable literals are ordinary defaults
        table = {"list[int]": "[]", "dict[str, float]": "{}", "set[fractions.Fraction]": "set()", "tuple[int, ...]": "()", None: rng.choice([base, "[]", "{}", "None"])}
        if a is not None and rng.random() < 0.25:
            return "None"  # `x: int = None`: the default is not an annotation, an explicit None is still converted per `int`
        return table.get(a, base) if rng.random() < 0.6 else base

    po, pk, va, ko, vk = present
    npo = rng.randrange(1, max_per_kind + 1) if po else 0
    npk = rng.randrange(1, max_per_kind + 1) if pk else 0
    nko = rng.randrange(1, max_per_kind + 1) if ko else 0
    defaults_started = False
    for i in range(npo):
        d = None
        if defaults_started or rng.random() < 0.2:
            defaults_started = True
            d = "'9'"
        a_ = ann()
        params.append((f"p{i}", "po", a_, dflt(a_, d) if d is not None else None))
    for i in range(npk):
        d = None
        if defaults_started or rng.random() < 0.25:
            defaults_started = True
            d = "'8'"
        a_ = ann()
        params.append((f"q{i}", "pk", a_, dflt(a_, d) if d is not None else None))
    if va:
        params.append(("rest", "va", ann(), None))
    for i in range(nko):
        a_ = ann()
        params.append((f"k{i}", "ko", a_, dflt(a_, "'7'") if rng.random() < 0.3 else None))
    if vk:
        params.append(("extra", "vk", ann(), None))
    if rng.random() < 0.3:
        # a parameter called like a name the binder uses itself (its own `self`, its argument names): still only a parameter
        cands = [j for j, p_ in enumerate(params) if p_[1] in ("pk", "ko")]
        if cands:
            j = rng.choice(cands)
            params[j] = (rng.choice(["self", "cls", "obj", "args", "kwargs", "binding", "signature", "call", "val", "t"]),) + params[j][1:]
    return params


def render(params, name="f", first=None):
    parts = []
    seen_po = any(p[1] == "po" for p in params)
    if first:
        parts.append(first)
    po_done = False
    star_done = False
    for (n, kind, a, d) in params:
        if kind != "po" and seen_po and not po_done:
            parts.append("/")
            po_done = True
        if kind == "ko" and not star_done and not any(p[1] == "va" for p in params):
            parts.append("*")
            star_done = True
        s = {"va": "*", "vk": "**"}.get(kind, "") + n
        if a:
            s += f": {a}"
        if d is not None:
            s += f" = {d}"
        parts.append(s)
    if seen_po and not po_done:
        parts.append("/")
    names = [p[0] for p in params]
    body = "{" + ", ".join(f"{n!r}: {n}" for n in names) + "}"
    return f"def {name}({', '.join(parts)}):\n    '''doc of {name}'''\n    return {body}\n"


def call_shapes(rng, params, cap):
    """Yield (args tuple, kwargs dict) shapes: accepted and rejected."""
    po = [p for p in params if p[1] == "po"]
    pk = [p for p in params if p[1] == "pk"]
    ko = [p for p in params if p[1] == "ko"]
    has_va = any(p[1] == "va" for p in params)
    has_vk = any(p[1] == "vk" for p in params)
    ann_of = {p[0]: p[2] for p in params}

    def val(n, j=0):
        a = ann_of.get(n)
        if a in COMPOSITE:
            pool = COMPOSITE[a]
            return pool[(abs(hash(n)) + j) % len(pool)]
        return f"{(abs(hash(n)) % 7) + 1}"  # numeric text, distinct per name
    shapes = []
    # how many pos-or-kw are passed positionally (prefix), the rest by keyword
    for npos in range(len(pk) + 1):
        for omit_defaults in (False, True):
            for nva in ((0, 1, 2) if has_va else (0,)):
                if nva and npos < len(pk):
                    continue  # extra positionals require all pos-or-kw to be positional
                for nvk in ((0, 1, 2) if has_vk else (0,)):
                    args = [val(p[0]) for p in po if not (omit_defaults and p[3] is not None)]
                    if len(args) < len(po) and (npos or nva):
                        continue  # cannot skip a defaulted positional-only and still pass later positionals
                    args += [val(p[0]) for p in pk[:npos]]
                    args += [val("rest", j) if ann_of.get("rest") in COMPOSITE else f"{5 + j}" for j in range(nva)]
                    kwargs = {p[0]: val(p[0]) for p in pk[npos:] if not (omit_defaults and p[3] is not None)}
                    kwargs.update({p[0]: val(p[0]) for p in ko if not (omit_defaults and p[3] is not None)})
                    kwargs.update({f"x{j}": val("extra", j) if ann_of.get("extra") in COMPOSITE else f"{3 + j}" for j in range(nvk)})
                    shapes.append((tuple(args), kwargs))
    # with **kwargs, a keyword named like a parameter that CANNOT be passed by keyword (a positional-only one, the variadic ones
    # themselves) is an extra keyword: it belongs to **kwargs and converts per the **kwargs annotation
    if has_vk:
        clash = [p[0] for p in po] + [p[0] for p in params if p[1] in ("va", "vk")]
        for args, kwargs in [s_ for s_ in shapes if len(s_[0]) >= len(po)][:: max(1, len(shapes) // 4)][:4]:
            for j, n in enumerate(rng.sample(clash, min(2, len(clash)))):
                shapes.append((args, {**kwargs, n: val("extra", j) if ann_of.get("extra") in COMPOSITE else f"{3 + j}"}))
    # rejected shapes
    base_args, base_kwargs = shapes[0] if shapes else ((), {})
    rej = [
        (base_args + ("1", "2", "3", "4", "5", "6"), dict(base_kwargs)) if not has_va else None,  # too many positionals
        (base_args, {**base_kwargs, "unknown_kw": "1"}) if not has_vk else None,
        (base_args[:-1], dict(base_kwargs)) if base_args and po and po[-1][3] is None and not pk else None,  # missing
        (base_args, {k: v for k, v in list(base_kwargs.items())[1:]}) if base_kwargs else None,
        (base_args, {**base_kwargs, po[0][0]: "1"}) if po and not has_vk else None,  # positional-only by keyword
        (base_args + tuple(val(p[0]) for p in pk[:1]), {**base_kwargs}) if pk and pk[0][0] in base_kwargs else None,  # duplicate
    ]
    shapes += [r for r in rej if r is not None]
    # an explicit None for one argument (Python accepts any object): it is converted per the parameter's own annotation
    for args, kwargs in list(shapes[:6]):
        if args and rng.random() < 0.5:
            k_ = rng.randrange(len(args))
            shapes.append((args[:k_] + (None,) + args[k_ + 1:], dict(kwargs)))
        elif kwargs:
            k_ = rng.choice(sorted(kwargs))
            shapes.append((args, {**kwargs, k_: None}))
    if len(shapes) > cap:
        shapes = rng.sample(shapes, cap)
    return shapes


def reference(sig, params, args, kwargs, ns=None):
    """('ok', expected received mapping) | ('typeerror',)"""
    try:
        ba = sig.bind(*args, **kwargs)
    except TypeError:
        return ("typeerror",)
    try:
        return _reference(sig, params, ba, ns)
    except TypeError:
        return ("typeerror",)
    except Exception as e:  # noqa: BLE001  (a sample the annotation's own unmarshaller rejects)
        return ("raised", type(e).__name__)


def _reference(sig, params, ba, ns):
    ann = {p[0]: p[2] for p in params}
    kind = {p[0]: p[1] for p in params}
    out = {}
    for name, p in sig.parameters.items():
        if name not in ba.arguments:
            out[name] = () if kind[name] == "va" else ({} if kind[name] == "vk" else p.default)
            continue
        v = ba.arguments[name]
        a = ann[name]
        if a is not None:
            t = eval(a, (ns or NS) | {"__builtins__": __builtins__})
            if isinstance(t, str):  # an explicitly quoted annotation: means its evaluation in the callee's module
                t = eval(t, (ns or NS) | {"__builtins__": __builtins__})
        conv = (lambda x: x) if a is None else typelib.unmarshaller(t)
        if kind[name] == "va":
            out[name] = tuple(conv(e) for e in v)
        elif kind[name] == "vk":
            out[name] = {k: conv(e) for k, e in v.items()}
        else:
            out[name] = conv(v)
    return ("ok", out)


def observe(fn, args, kwargs):
    try:
        with quiet():
            r = fn(*args, **kwargs)
            if inspect.iscoroutine(r):
                # a coroutine function: what it returns is what driving the coroutine to its end gives
                try:
                    r.send(None)
                    r.close()
                    return ("raised", "RuntimeError", "coroutine did not finish")
                except StopIteration as stop:
                    r = stop.value
            return ("ok", r)
    except TypeError:
        return ("typeerror",)
    except Exception as e:  # noqa: BLE001
        return ("raised", type(e).__name__, str(e)[:120])


def canaries(sh):
    sh.canary("class-of-argument-visible", canon({"a": 1}, strict=True) != canon({"a": decimal.Decimal(1)}, strict=True))
    sh.canary("unconverted-visible", canon({"a": "1"}, strict=True) != canon({"a": 1}, strict=True))


def build_variants(src, params, variants, modname, future=False):
    """Compile the recording callee in several guises. Returns {variant: (callable to bind, signature params for reference)}."""
    mod = types.ModuleType(modname)
    mod.__dict__.update(NS)
    sys.modules[modname] = mod
    out = {}
    code = ("from __future__ import annotations\n" if future else "") + PRELUDE + src + "\n"
    # the same callee behind a functools.wraps decorator that changes the result: wrap()/bind() must call the DECORATED callable
    code += ("import functools\ndef _deco(fn):\n    @functools.wraps(fn)\n    def inner(*a, **k):\n        r = fn(*a, **k)\n"
             "        return {**r, '_decorated': True}\n    return inner\ndecorated = _deco(f)\n")
    code += "async " + render(params, "coro") + "\n"
    pnames = {p_[0] for p_ in params}
    me, kls = ("me" if "self" in pnames else "self"), ("kls" if "cls" in pnames else "cls")
    # class-level annotations called like the parameters, with OTHER types: attributes of the class are not parameters of its methods
    attrs = "".join(f"    {p_[0]}: {'int' if p_[2] == 'bytes' else 'bytes'}\n" for p_ in params if p_[0].isidentifier())
    code += "class Holder:\n" + attrs
    code += "\n".join("    " + l for l in render(params, "meth", first=me).splitlines()) + "\n"
    code += "    @staticmethod\n" + "\n".join("    " + l for l in render(params, "smeth").splitlines()) + "\n"
    code += "    @classmethod\n" + "\n".join("    " + l for l in render(params, "cmeth", first=kls).splitlines()) + "\n"
    code += "\n".join("    " + l for l in render(params, "__call__", first=me).splitlines()) + "\n"
    names = [p[0] for p in params]
    init = render(params, "__init__", first=me).replace("return {" + ", ".join(f"{n!r}: {n}" for n in names) + "}",
                                                              me + ".received = {" + ", ".join(f"{n!r}: {n}" for n in names) + "}")
    code += "class Klass:\n" + attrs + "\n".join("    " + l for l in init.splitlines()) + "\n"
    exec(compile(code, f"/verif/out/generated/{modname}.py", "exec", dont_inherit=True), mod.__dict__)
    h = mod.Holder()
    allv = {"coroutine": mod.coro, "decorated": mod.decorated, "function": mod.f, "method": h.meth, "static": mod.Holder.smeth, "classmethod": mod.Holder.cmeth, "instance": h, "class": mod.Klass}
    return {v: allv[v] for v in variants}, mod


def run_shard(sh):
    plan = PLAN[sh.tier]
    combos = list(itertools.product([False, True], repeat=5))
    import random

    rnd = random.Random(f"C10/{sh.seed}")
    sigs = []
    for present in combos:
        reps = 6 if sh.tier == "quick" else 40
        for r in range(reps):
            sigs.append(present)
    for _ in range(plan["extra_sigs"]):
        sigs.append(rnd.choice(combos))
    mine = [(idx, p) for idx, p in enumerate(sigs) if idx % sh.nshards == sh.shard]

    def case(i):
        idx, present = mine[i]
        rng = case_rng(sh, idx)
        composite = rng.random() < 0.5
        future = rng.random() < 0.4
        if future:
            sh.count("postponed_annotation_modules")
        if not any(present):
            params = []
        else:
            params = make_signature(rng, present, plan["max_per_kind"], composite=composite)
        row = tuple(bool(x) for x in (present[0], present[3], present[2], present[4], present[1]))
        src = render(params, "f")
        _N[0] += 1
        modname = f"vbind_{sh.shard}_{_N[0]}"
        try:
            variants, mod = build_variants(src, params, plan["variants"], modname, future=future)
        except SyntaxError as e:
            sh.inconclusive.append(f"generated source does not compile: {e}: {src}")
            return
        try:
            sig = inspect.signature(mod.f)
            for vname, target in variants.items():
                try:
                    with quiet():
                        bound = binding.bind(target)
                        wrapped = binding.wrap(getattr(mod, "f") if vname == "function" else target) if vname in ("function", "method", "instance", "decorated", "coroutine") else None
                except Exception as e:  # noqa: BLE001
                    sh.violation("bind-raised", signature=src.splitlines()[0], variant=vname, exc=type(e).__name__, detail=str(e)[:200])
                    continue
                sh.see("rows_hit", row)
                sh.see("binder_classes_hit", type(bound.binding).__name__)
                if vname == "function":
                    sh.count("wrap_metadata_checked")
                    for attr in ("__name__", "__qualname__", "__doc__", "__module__"):
                        if getattr(wrapped, attr, None) != getattr(mod.f, attr, None):
                            sh.violation("wrap-metadata", signature=src.splitlines()[0], attribute=attr, got=short(getattr(wrapped, attr, None)))
                    if getattr(wrapped, "__wrapped__", None) is not mod.f or str(inspect.signature(wrapped)) != str(sig):
                        sh.violation("wrap-metadata", signature=src.splitlines()[0], attribute="__wrapped__/signature", got=str(inspect.signature(wrapped)))
                for args, kwargs in call_shapes(rng, params, plan["shapes_cap"]):
                    want = reference(sig, params, args, kwargs, ns=mod.__dict__)
                    if any(p[2] in COMPOSITE for p in params):
                        sh.count("calls_with_composite_annotations")
                    fns = [("bind", bound)] + ([("wrap", wrapped)] if wrapped is not None and vname != "instance" else [])
                    for how, fn in fns:
                        sh.eval((src.splitlines()[0], vname, how, repr(args), repr(sorted(kwargs))))
                        got = observe(fn, args, kwargs)
                        if vname == "class" and got[0] == "ok":
                            got = ("ok", getattr(got[1], "received", None))
                        if vname == "decorated" and got[0] == "ok":
                            # the decorator's mark must be on the result (the decorated callable was the one invoked)
                            if not (isinstance(got[1], dict) and got[1].get("_decorated") is True):
                                sh.violation("decorated-callable-bypassed", signature=src.splitlines()[0], via=how, got=short(got, 200))
                            else:
                                got = ("ok", {k_: v_ for k_, v_ in got[1].items() if k_ != "_decorated"})
                        sh.count("calls_compared")
                        if want[0] == "typeerror":
                            sh.count("rejected_shapes_checked")
                        ok = want[0] == got[0] and (want[0] != "ok" or canon(want[1], strict=True) == canon(got[1], strict=True))
                        if not ok:
                            sh.violation("argument-binding", signature=src.splitlines()[0], variant=vname, via=how, row=str(row),
                                         binder=type(bound.binding).__name__, call=f"args={args} kwargs={kwargs}", expected=short(want, 300), got=short(got, 300))
            if i % 40 == 0:
                sh.sample({"signature": src.splitlines()[0], "row": str(row)})
        finally:
            sys.modules.pop(modname, None)

    sh.run_cases(len(mine), case)
