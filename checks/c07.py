"""C07 - recursive and mutually recursive types work at every depth."""
from __future__ import annotations

import random
import sys

import typelib

from checks.c09 import Steps, StepBudgetExceeded
from vlib import topo
from vlib.oracles import canon, json_plain, same, short
from vlib.workload import case_rng, clear_typelib_caches, per_shard, quiet

ID = "C07"
LEVEL = "exploration"
RULE = ("cyclic class-graph topologies over <=3 synthesised classes (all edge sets over 1-2 classes, sampled over 3) with every edge drawn "
        "from {Optional[X], list[X], dict[str,X], tuple[X,...], X|None}; flavours dataclass/NamedTuple/TypedDict, top-level and nested "
        "(Outer.Ci) classes; each class and each container of a class (list/dict/Optional/tuple/X|None) as root; routine and codec "
        "construction under a step budget; values of every nesting depth 0..D; one evaluation = one (root, depth) value whose marshal "
        "output is plain at every level, whose round trip restores every level's class, and whose JSON codec round trip agrees; "
        "distinct = (topology, root, depth)")
ASSUMPTIONS = [
    "recursion limit pinned to 10000 in the worker; CPython 3.12's C-level recursion limit is not adjustable, so a RecursionError is a violation for depth <= 100 (or when the traceback shows more than 40 frames per level) and 'deeper than the interpreter allows' beyond that",
    "branching is 1-3 for depth <= 6 and 1 beyond (value size, not depth, is bounded)",
    "termination is decided on logical steps (sys.monitoring PY_START budget), wall-clock only as watchdog",
]
PLAN = {"quick": dict(topologies=1600, D=12), "thorough": dict(topologies=10000, D=150)}
WATCHDOG_S = {"thorough": 10000}
FLOORS = {"quick": {"topologies_with_wrapped_edges": 300, "retries_after_rejection": 15000, "constructions": 10000, "depth_values_checked": 60000, "values_at_max_depth": 8000, "codec_roundtrips": 50000, "topologies_with_direct_edges": 150, "hybrid_inputs": 2500, "alias_depth_values_checked": 1200},
          "thorough": {"topologies_with_wrapped_edges": 2000, "retries_after_rejection": 110000, "constructions": 65000, "depth_values_checked": 400000, "values_at_max_depth": 55000, "codec_roundtrips": 330000, "topologies_with_direct_edges": 800, "hybrid_inputs": 25000, "alias_depth_values_checked": 8000}}


def is_cyclic(n, es):
    adj = {i: [b for a, b in es if a == i] for i in range(n)}
    color = {}

    def dfs(u):
        color[u] = 1
        for w in adj[u]:
            if color.get(w) == 1 or (w not in color and dfs(w)):
                return True
        color[u] = 2
        return False

    return any(i not in color and dfs(i) for i in range(n))


def enumerate_topologies(seed):
    out = []
    for n in (1, 2):
        for es in topo.all_edge_sets(n):
            if es and is_cyclic(n, es):
                out.append((n, es))
    rnd = random.Random(f"C07/{seed}/3")
    while len(out) < 200000:
        es = [(i, j) for i in range(3) for j in range(3) if rnd.random() < 0.35]
        if es and is_cyclic(3, es):
            out.append((3, es))
    return out


def container_value(kind, make):
    if kind in ("optional", "pipe", "nonefirst", "unionnone"):
        return make()
    if kind == "list":
        return [make(), make()]
    if kind == "dict":
        return {"a": make(), "b": make()}
    return (make(),)


def hybridize(tp, i, w, rng, depth=0):
    """The wire form w of a value of class i with some nested levels replaced by INSTANCES of their class that still hold wire values
    (constructors of dataclasses / NamedTuples do not validate). Returns (hybrid, number of instances planted)."""
    if not isinstance(w, dict) or depth > 40:
        return w, 0
    out, planted = {}, 0
    for k, x in w.items():
        if not (k.startswith("e") and "_" in k):
            out[k] = x
            continue
        b = int(k[1:].split("_")[0])

        def sub(d):
            nonlocal planted
            if not isinstance(d, dict):
                return d
            h, n = hybridize(tp, b, d, rng, depth + 1)
            planted += n
            if rng.random() < 0.35:
                try:
                    inst = tp.cls(b)(**h)
                except Exception:  # noqa: BLE001
                    return h
                planted += 1
                return inst
            return h

        if isinstance(x, dict) and k.endswith("_dict"):
            out[k] = {kk: sub(d) for kk, d in x.items()}
        elif isinstance(x, dict):
            out[k] = sub(x)
        elif isinstance(x, list):
            out[k] = [sub(d) for d in x]
        else:
            out[k] = x
    return out, planted


def payload_nodes(m, depth=0, out=None):
    """The dict levels of a wire form below the root that carry the payload member 'v' (deepest last)."""
    out = [] if out is None else out
    if depth > 400:
        return out
    if isinstance(m, dict):
        if depth >= 1 and "v" in m:
            out.append(m)
        for e in m.values():
            payload_nodes(e, depth + 1, out)
    elif isinstance(m, (list, tuple)):
        for e in m:
            payload_nodes(e, depth + 1, out)
    return out


def canaries(sh):
    sh.canary("raw-dict-level-detected", not same({"v": 1, "e0_optional": {"v": 2}}, {"v": 1, "e0_optional": None}))

    class A:
        def __init__(self, x):
            self.x = x

    sh.canary("class-vs-dict", canon(A(1)) != canon({"x": 1}))
    sh.canary("nonplain-detected", not json_plain({"a": [A(1)]})[0])


_ALIAS_N = [0]


def alias_case(sh, rng, D):
    """Recursive TYPE ALIASES (PEP 695 `type X = ...` naming itself), at module level and defined inside a function - there also
    next to a different module-level alias of the same name. Leaves are Decimals, so a level passed through raw shows as text."""
    import decimal
    import sys
    import types as _types

    _ALIAS_N[0] += 1
    name = f"vrecalias_{sh.shard}_{_ALIAS_N[0]}"
    # one container member per alias: a union holding both a mapping and a sequence member is ambiguous (each accepts the other's wire
    # form), which is the C01/C08 union finding and not a matter of recursion
    shape = rng.choice(["list[{A}] | decimal.Decimal", "dict[str, {A}] | decimal.Decimal", "tuple[{A}, ...] | decimal.Decimal | None",
                        "dict[str, list[{A}]] | decimal.Decimal", "None | dict[str, {A}] | decimal.Decimal", "typing.Optional[list[{A}]]"])
    where = rng.choice(["module", "local", "local-with-namesake"])
    body = shape.format(A="Tree")
    if where == "module":
        src = f"import decimal, typing\ntype Tree = {body}\nROOT = Tree\n"
    else:
        namesake = "type Tree = dict[str, Tree] | str\n" if where == "local-with-namesake" else ""
        src = f"import decimal, typing\n{namesake}def make():\n    type Tree = {body}\n    return Tree\nROOT = make()\n"
    mod = _types.ModuleType(name)
    sys.modules[name] = mod
    try:
        exec(compile(src, f"/verif/out/generated/{name}.py", "exec", dont_inherit=True), mod.__dict__)
        T = mod.ROOT
        roots = [("alias", T, lambda v: v), ("list[alias]", list[T], lambda v: [v, v]), ("dict[str, alias]", dict[str, T], lambda v: {"r": v})]

        def value(d):
            leaf = decimal.Decimal(rng.randrange(-50, 50)) / 4 if "Decimal" in shape else None
            if d <= 0:
                return leaf if leaf is not None else []
            # branching only near the leaves: a deep value follows one spine (size linear in depth, not exponential)
            kids = [value(d - 1) for _ in range(rng.choice([1, 1, 2]) if d <= 6 else 1)]
            opts = []
            if "dict[str, {A}]" in shape:
                opts.append({f"k{j}": k for j, k in enumerate(kids)})
            if "dict[str, list[{A}]]" in shape:
                opts.append({"k": kids})
            if "list[{A}]" in shape and "dict[str, list" not in shape:
                opts.append(list(kids))
            if "tuple[{A}, ...]" in shape:
                opts.append(tuple(kids))
            return rng.choice(opts)

        rlabel, RT, wrap = rng.choice(roots)
        label = f"recursive alias ({where}) {body}"
        try:
            with quiet():
                um, mm, cdc = typelib.unmarshaller(RT), typelib.marshaller(RT), typelib.codec(RT)
        except Exception as e:  # noqa: BLE001
            sh.violation("construction-raised", topology=label, root=rlabel, exc=type(e).__name__, detail=str(e)[:300], module_src=src)
            return
        sh.count("alias_constructions")
        for d in sorted({0, 1, 2, 3, rng.randrange(0, min(D, 40) + 1)}):
            v = wrap(value(d))
            sh.eval((label, rlabel, d))
            rec = dict(topology=label, root=rlabel, depth=d, module_src=src)
            try:
                with quiet():
                    m = mm(v)
                    u = um(m)
                    u2 = cdc.decode(cdc.encode(v))
            except RecursionError:
                if d <= 100:
                    sh.violation("unbounded-recursion", frames=-1, **rec)
                continue
            except Exception as e:  # noqa: BLE001
                sh.violation("roundtrip-raised", exc=type(e).__name__, detail=str(e)[:300], value=short(v, 200), **rec)
                continue
            sh.count("alias_depth_values_checked")
            ok, why = json_plain(m)
            if not ok:
                sh.violation("level-marshalled-raw", where=why, value=short(v, 200), **rec)
            elif not same(u, v):
                sh.violation("level-not-restored", value=short(v, 300), observed=short(u, 300), **rec)
            elif not same(u2, v):
                sh.violation("codec-level-not-restored", value=short(v, 300), observed=short(u2, 300), **rec)
    finally:
        sys.modules.pop(name, None)


def run_shard(sh):
    plan = PLAN[sh.tier]
    D = plan["D"]
    tops = enumerate_topologies(sh.seed)[: plan["topologies"]]
    mine = [t for idx, t in enumerate(tops) if idx % sh.nshards == sh.shard]
    steps = Steps()
    steps.start()

    def case(i):
        rng = case_rng(sh, i)
        clear_typelib_caches(also_typing=True)
        n, es = mine[i]
        # closing edges (Optional/list/dict/tuple/`| None`) and, in 40% of the topologies, direct class-typed fields on part of a cycle
        if rng.random() < 0.4:
            edges = topo.closing_kinds_with_direct(rng, es)
            if any(k == "direct" for _, _, k in edges):
                sh.count("topologies_with_direct_edges")
        else:
            edges = [(a, b, rng.choice(topo.CLOSING_KINDS)) for a, b in es]
        flavour = rng.choice(["dataclass", "dataclass", "namedtuple", "typeddict"])
        wrapped = {}
        if rng.random() < 0.3:
            # the way back into the cycle (or on to the next class) leads through a NewType / alias of the target class
            for e in rng.sample(edges, min(len(edges), rng.randrange(1, 3))):
                wrapped[e] = rng.choice(["newtype", "alias"])
            sh.count("topologies_with_wrapped_edges")
        tp = topo.Topology(n, edges, nested=rng.random() < 0.25, flavour=flavour, tag=f"c07_{sh.shard}_{i}", payload=rng.random() < 0.8, style=rng.choice(["postponed", "quoted"]),
                           wrapped_edges=wrapped)
        tp.build()
        label = f"{flavour} {'nested ' if tp.nested else ''}{n}-class {edges}"
        try:
            roots = tp.roots()
            rng.shuffle(roots)
            for rlabel, T in roots[:8]:
                steps.n = 0
                steps.on = True
                try:
                    with quiet():
                        um = typelib.unmarshaller(T)
                        mm = typelib.marshaller(T)
                        cdc = typelib.codec(T)
                except StepBudgetExceeded:
                    sh.violation("construction-step-budget", topology=label, root=rlabel, module_src=tp.source)
                    continue
                except RecursionError:
                    sh.violation("construction-recursion", topology=label, root=rlabel, module_src=tp.source)
                    continue
                except Exception as e:  # noqa: BLE001
                    sh.violation("construction-raised", topology=label, root=rlabel, exc=type(e).__name__, detail=str(e)[:300], module_src=tp.source)
                    continue
                finally:
                    steps.on = False
                sh.count("constructions")
                # which class index / container kind is this root?
                ci = int(rlabel.split("C")[-1].split("]")[0].split(",")[0].split(" ")[0].rstrip("]"))
                kind = None
                for k in topo.CLOSING_KINDS:
                    if rlabel == topo.ann(k, tp.cname(ci)):
                        kind = k
                depths = sorted({0, 1, 2, 3, rng.randrange(0, D + 1), rng.randrange(0, D + 1), D})
                for d in depths:
                    br = rng.choice([1, 2, 3]) if d <= 6 else 1
                    make = lambda: tp.value(ci, d, rng, branching=br)  # noqa: E731
                    v = make() if kind is None else container_value(kind, make)
                    sh.eval((label, rlabel, d))
                    if d == D:
                        sh.count("values_at_max_depth")
                    sh.see("depths_seen", d)
                    rec = dict(topology=label, root=rlabel, depth=d, module_src=tp.source)
                    try:
                        with quiet():
                            m = mm(v)
                            u = um(m)
                    except RecursionError as e:
                        # CPython 3.12 has a fixed C-level recursion limit that setrecursionlimit() cannot raise; the library
                        # needs a constant number of frames per nesting level, so beyond ~100 levels a RecursionError means
                        # "value deeper than the interpreter allows" (outside the statement), not unbounded recursion
                        import traceback as _tb

                        frames = len(_tb.extract_tb(e.__traceback__))
                        if d <= 100 or frames > 40 * (d + 5):
                            sh.violation("unbounded-recursion", frames=frames, **rec)
                        else:
                            sh.count("beyond_interpreter_recursion_limit")
                        continue
                    except Exception as e:  # noqa: BLE001
                        sh.violation("roundtrip-raised", exc=type(e).__name__, detail=str(e)[:300], value=short(v, 200), **rec)
                        continue
                    sh.count("depth_values_checked")
                    ok, why = json_plain(m)
                    if not ok:
                        sh.violation("level-marshalled-raw", where=why, value=short(v, 200), **rec)
                        continue
                    if not same(u, v):
                        sh.violation("level-not-restored", value=short(v, 300), observed=short(u, 300), **rec)
                        continue
                    # the same wire with some levels already built as instances that still hold raw members: every level below
                    # such an instance must be converted all the same
                    if flavour != "typeddict" and kind is None and isinstance(m, dict) and d >= 1:
                        hyb, planted = hybridize(tp, ci, m, rng)
                        if planted:
                            sh.count("hybrid_inputs")
                            try:
                                with quiet():
                                    uh = um(hyb)
                                if not same(uh, v):
                                    sh.violation("level-passed-through-raw", value=short(hyb, 300), observed=short(uh, 300), expected=short(v, 200), **rec)
                            except RecursionError:
                                pass
                            except Exception as e:  # noqa: BLE001
                                sh.violation("level-passed-through-raw", value=short(hyb, 300), observed=f"raised {type(e).__name__}: {e}"[:200], **rec)
                    # a rejected input, corrected IN PLACE and submitted again (the same container objects): the second attempt is an
                    # ordinary valid input
                    nodes = payload_nodes(m)
                    if nodes and d >= 1:
                        node = nodes[-1] if rng.random() < 0.6 else rng.choice(nodes)
                        keep = node["v"]
                        node["v"] = rng.choice(["not-a-number", [], {"x": 1}, object()])
                        try:
                            with quiet():
                                um(m)
                            rejected = False
                        except RecursionError:
                            rejected = None
                        except Exception:  # noqa: BLE001
                            rejected = True
                        node["v"] = keep
                        if rejected:
                            sh.count("retries_after_rejection")
                            try:
                                with quiet():
                                    ur = um(m)
                                if not same(ur, v):
                                    sh.violation("retry-after-rejection-differs", value=short(m, 300), observed=short(ur, 300), expected=short(v, 200), **rec)
                            except RecursionError:
                                pass
                            except Exception as e:  # noqa: BLE001
                                sh.violation("retry-after-rejection-differs", value=short(m, 300), observed=f"raised {type(e).__name__}: {e}"[:300], **rec)
                    try:
                        with quiet():
                            u2 = cdc.decode(cdc.encode(v))
                        sh.count("codec_roundtrips")
                        if not same(u2, v):
                            sh.violation("codec-level-not-restored", value=short(v, 300), observed=short(u2, 300), **rec)
                    except RecursionError:
                        if d <= 100:  # the JSON backends have their own nesting limits far above this
                            sh.violation("codec-unbounded-recursion", **rec)
                        else:
                            sh.count("beyond_interpreter_recursion_limit")
                    except Exception as e:  # noqa: BLE001
                        if "ecursion" in str(e) and d > 100:
                            continue
                        sh.violation("codec-raised", exc=type(e).__name__, detail=str(e)[:300], **rec)
            if i % 40 == 0:
                sh.sample({"topology": label, "roots": [r for r, _ in roots[:4]]})
        finally:
            tp.drop()

    def both(i):
        case(i)
        if i % 3 == 0:
            clear_typelib_caches(also_typing=True)
            alias_case(sh, case_rng(sh, i, "alias"), D)

    sh.run_cases(len(mine), both, timeout_s=(900 if sh.tier == "thorough" else None))
    steps.stop()
