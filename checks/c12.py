"""C12 - results depend only on (type, input), never on call history (cold-process replay oracle)."""
from __future__ import annotations

import copy
import json

import typelib  # imported only: the zygote never calls into the library

from vlib import coldproc, hostile
from vlib import universe as U
from vlib.oracles import canon, json_plain, mutable_ids, short
from vlib.workload import case_rng, clear_typelib_caches, per_shard, quiet

ID = "C12"
LEVEL = "exploration"
RULE = ("module re-definition histories (types are used, their module is executed again with another member type, the new classes are then used like any type) and random histories (length 15-60) over {build routine, marshal, unmarshal, encode, decode, deep-mutate a previously returned "
        "result, deep-mutate a previously passed input, clear caches, failing calls from the hostile pool} over 4-6 types per history, "
        "biased toward distinct objects that compare/hash equal (both member orders of one union, equal instants with other offsets, "
        "1/1.0/True, equal text as str/bytes, Decimal('1.0')/('1.00')); every operation of the history is re-executed ALONE in a process "
        "forked from an import-only zygote and the canonical outcomes are compared; inside the history an aliasing registry watches for "
        "containers handed out twice and for mutated inputs; one evaluation = one operation compared with its cold twin; plus the repository's own test-suite under a repeat-the-call monitor (same call twice in a warm process gives the same outcome); distinct = "
        "(type source, op kind, canonical input)")
ASSUMPTIONS = [
    "the zygote has imported typelib and the synthesised modules and made no call into the library; fork() gives every cold run that identical state",
    "outcomes are compared on a class-qualified, offset-aware, representation-strict canonical form; operations whose outcome depends on wall-clock 'today' (time-only text into date/datetime) are not generated",
    "string references are issued from one fixed module per history, except in the dedicated two-module scenario (D27)",
]
PLAN = {"quick": dict(histories=736, maxlen=50, pressure=False), "thorough": dict(histories=13760, maxlen=60, pressure=True)}
FLOORS = {"quick": {"suite_unmarshal_determinism_judged": 20, "suite_tests_passed": 1400, "ops_compared_with_cold": 12000, "histories": 540, "redefinition_histories": 450, "equal_but_distinct_inputs": 3000, "one_text_several_types": 1200, "result_mutations": 900, "aliasing_checks": 20000,
                    "union_twin_histories": 150, "two_module_string_ref_histories": 50},
          "thorough": {"suite_unmarshal_determinism_judged": 20, "suite_tests_passed": 1400, "ops_compared_with_cold": 300000, "histories": 10000, "redefinition_histories": 8000, "equal_but_distinct_inputs": 60000, "one_text_several_types": 25000, "result_mutations": 25000,
                       "aliasing_checks": 300000, "union_twin_histories": 2500, "cache_pressure_ops": 100}}


def outcome_of(fn):
    try:
        with quiet():
            r = fn()
        return r, ["ok", repr(canon(r, strict=True))]
    except (RecursionError, MemoryError):
        return None, ["skip"]
    except Exception as e:  # noqa: BLE001
        return None, ["raised", type(e).__name__]


def _indent_encoder(m):
    return json.dumps(m, indent=1, sort_keys=True).encode()


def _plain_decoder(b):
    return json.loads(bytes(b) if isinstance(b, memoryview) else b)


def _codec_for(T, op):
    """The codec an op uses: the default one, or one with the harness's own coders (recognisable by their indented output)."""
    if op.get("coder") == "indent":
        return typelib.codec(T, encoder=_indent_encoder, decoder=_plain_decoder)
    return typelib.codec(T)


def do_op(op, types, inputs):
    """Execute one library-facing operation; returns (result object, outcome list)."""
    T = types[op["t"]]
    k = op["kind"]
    x = inputs[op["x"]] if op.get("x") is not None else None
    if k == "build":
        return outcome_of(lambda: (type(typelib.unmarshaller(T)).__name__, type(typelib.marshaller(T)).__name__))
    if k == "marshal":
        return outcome_of(lambda: typelib.marshal(x, t=T))
    if k == "unmarshal":
        return outcome_of(lambda: typelib.unmarshal(T, x))
    if k == "encode":
        return outcome_of(lambda: _codec_for(T, op).encode(x) if op.get("via") == "codec" else typelib.encode(x, t=T))
    if k == "decode":
        return outcome_of(lambda: _codec_for(T, op).decode(x) if op.get("via") == "codec" else typelib.decode(T, x))
    if k == "strref":
        caller = op["caller"]
        return outcome_of(lambda: caller(typelib.unmarshal, op["ref"], x))
    raise AssertionError(k)


def deep_mutate(o, depth=0):
    """Mutate every mutable container reachable from o."""
    if depth > 8:
        return
    if isinstance(o, list):
        for e in list(o):
            deep_mutate(e, depth + 1)
        o.append("<<mutated>>")
    elif isinstance(o, dict):
        for e in list(o.values()):
            deep_mutate(e, depth + 1)
        o["<<mutated>>"] = 1
    elif isinstance(o, set):
        o.add("<<mutated>>")
    elif isinstance(o, bytearray):
        o.extend(b"!")
    elif isinstance(o, tuple):
        for e in o:
            deep_mutate(e, depth + 1)
    elif hasattr(o, "__dict__") and type(o).__module__.startswith("vgen_"):
        for e in list(vars(o).values()):
            deep_mutate(e, depth + 1)


def run_history(ops, types, inputs):
    """Runs in a forked child: the whole history. Returns per-op outcomes + aliasing / input-mutation findings."""
    outs, notes = [], []
    results = {}
    handed = {}  # id(container) -> (op index, container)  (strong refs keep ids unique)
    input_ids = {}
    checks = 0
    for i, op in enumerate(ops):
        k = op["kind"]
        if k == "clear":
            clear_typelib_caches()
            outs.append(["action"])
            continue
        if k == "mutate_result":
            if op["j"] in results:
                deep_mutate(results[op["j"]])
            outs.append(["action"])
            continue
        if k == "mutate_input":
            deep_mutate(inputs[ops[op["j"]]["x"]]) if ops[op["j"]].get("x") is not None else None
            outs.append(["action"])
            continue
        if k == "pressure":
            import datetime

            for n in range(op["n"]):
                try:
                    typelib.unmarshal(int, f"{n}")
                    if n % 4 == 0:
                        typelib.unmarshal(datetime.timedelta, f"PT{n}S")
                        typelib.unmarshal(list, f"[{n}]")
                except Exception:  # noqa: BLE001
                    pass
            outs.append(["action"])
            continue
        x = inputs[op["x"]] if op.get("x") is not None else None
        before = None
        if x is not None and not hasattr(x, "__next__"):
            try:
                before = canon(x, strict=True)
            except Exception:  # noqa: BLE001
                before = None
        res, out = do_op(op, types, inputs)
        outs.append(out)
        if before is not None:
            checks += 1
            try:
                if canon(x, strict=True) != before:
                    notes.append({"note": "input-mutated", "op": i, "kindop": k})
            except Exception:  # noqa: BLE001
                pass
        if out[0] == "ok":
            results[i] = res
            mine = mutable_ids(res)
            # a container of the input may only re-appear in the result where the type passes its contents through by contract
            # (Any / unparameterised containers); for fully annotated types the result is built anew
            xin = mutable_ids(x) if x is not None and op.get("passthrough") else {}
            for cid, c in mine.items():
                checks += 1
                if cid in handed and cid not in xin and handed[cid][0] != i:
                    j = handed[cid][0]
                    notes.append({"note": "container-handed-out-twice", "op": i, "earlier_op": j, "kindop": k, "container": short(c, 120)})
                    break
            for cid, c in mine.items():
                if cid not in xin:
                    handed.setdefault(cid, (i, c))
    return {"outs": outs, "notes": notes, "checks": checks}


def prep(types, values):
    """Runs in a forked child: wire forms and encoded bytes for the valid values."""
    out = []
    for ti, vi, v in values:
        T = types[ti]
        rec = {"t": ti, "v": vi, "wire": None, "bytes": None}
        try:
            with quiet():
                m = typelib.marshal(v, t=T)
            if json_plain(m)[0]:
                json.dumps(m)
                rec["wire"] = m
                try:
                    rec["bytes"] = typelib.codec(T).encode(v).decode("latin-1")
                except Exception:  # noqa: BLE001
                    pass
        except Exception:  # noqa: BLE001
            pass
        out.append(rec)
    return out


def twins(rng, prog, gen):
    """Types that are distinct objects but compare/hash equal: both member orders of a union (+ containers of them)."""
    import typing

    a, b = rng.sample(["int", "str", "float", "decimal.Decimal", "datetime.date", "uuid.UUID", "bool"], 2)
    s1 = prog.spec("union", f"typing.Union[{a}, {b}]", [], none_pos=None, nmembers=2, spelling="Union", order=[0, 1])
    s2 = prog.spec("union", f"typing.Union[{b}, {a}]", [], none_pos=None, nmembers=2, spelling="Union", order=[0, 1])
    return [s1, s2]


def equalish(rng):
    """Pairs of distinct inputs that compare/hash equal."""
    import datetime
    import decimal

    d1 = datetime.datetime(2020, 5, 17, 12, 0, tzinfo=datetime.timezone.utc)
    return rng.choice([
        [1, 1.0, True], ["1", b"1", bytearray(b"1")], [decimal.Decimal("1.0"), decimal.Decimal("1.00"), decimal.Decimal("1")],
        [d1, d1.astimezone(datetime.timezone(datetime.timedelta(hours=5))), d1.astimezone(datetime.timezone(datetime.timedelta(hours=-7, minutes=30)))],
        [datetime.time(12, 0, tzinfo=datetime.timezone.utc), datetime.time(17, 0, tzinfo=datetime.timezone(datetime.timedelta(hours=5)))],
        ["[1, 2]", b"[1, 2]", "[1, 2]"[:], memoryview(b"[1, 2]")], [0, 0.0, False, -0.0], ['{"a": 1}', b'{"a": 1}'], [(1, 2), (1.0, 2.0)],
        ["2020-01-01", b"2020-01-01"], [[1, 2], [1.0, 2.0], [True, 2]],
    ])


def typing_args(u):
    import typing

    return tuple(typing.get_args(u))


def unions_in(specs, ti):
    if ti >= len(specs):
        return []
    out = []
    for sp in specs[ti].walk():
        if sp.kind == "union" and not isinstance(sp.t, str):
            out.append(sp.t)
    return out


def safe_copy(x):
    try:
        return copy.deepcopy(x)
    except Exception:  # noqa: BLE001
        return x


# ---- a module that is defined again (reload, a re-run notebook cell) --------------------------------------------------------------
RD_LEAVES = {
    "int": [("7", 7), (8.0, 8)], "str": [(7, "7"), (2.5, "2.5")], "float": [("1.5", 1.5), (2, 2.0)],
    "decimal.Decimal": [("1.50", __import__("decimal").Decimal("1.50"))], "datetime.date": [("2020-01-02", __import__("datetime").date(2020, 1, 2))],
}
RD_WIRE = {"int": lambda v: v, "str": lambda v: v, "float": lambda v: v, "decimal.Decimal": str, "datetime.date": lambda v: v.isoformat()}


def redefinition_source(style, leaf):
    head = "import dataclasses, datetime, decimal, typing\n"
    if style in ("postponed", "recursive"):
        head = "from __future__ import annotations\n" + head
    if style == "recursive":
        return head + (f"@dataclasses.dataclass\nclass Holder:\n    value: {leaf}\n    item: typing.Optional[Holder] = None\n"
                       "    items: list[Holder] = dataclasses.field(default_factory=list)\n")
    item = f"@dataclasses.dataclass\nclass Item:\n    value: {leaf}\n"
    if style == "init-strings":
        return head + item + ("class Holder:\n    def __init__(self, item: 'Item', items: 'list[Item]'):\n        self.item, self.items = item, items\n")
    return head + item + "@dataclasses.dataclass\nclass Holder:\n    item: Item\n    items: list[Item]\n"


def redefinition_case(sh, rng):
    """Types are used, then their module is executed AGAIN with another member type (importlib.reload, a re-run cell): the new
    classes are new types, and calls on them are ordinary calls - whatever was done with their namesakes before."""
    import sys
    import types

    from typelib import graph

    style = rng.choice(["postponed", "evaluated", "init-strings", "recursive"])
    t1, t2 = rng.sample(sorted(RD_LEAVES), 2)
    name = f"vredef_{rng.randrange(16**8):08x}"
    mod = types.ModuleType(name)
    mod.__file__ = f"/verif/out/generated/{name}.py"
    sys.modules[name] = mod

    def load(leaf):
        exec(compile(redefinition_source(style, leaf), mod.__file__, "exec", dont_inherit=True), mod.__dict__)

    def wire_and_value(leaf, leaf_cls_name):
        (w1, v1), (w2, v2) = rng.choice(RD_LEAVES[leaf]), rng.choice(RD_LEAVES[leaf])
        if style == "recursive":
            return ({"value": w1, "item": {"value": w2}, "items": [{"value": w1}]}, [("$.value", v1), ("$.item.value", v2), ("$.items[0].value", v1)],
                    {"value": RD_WIRE[leaf](v1), "item": {"value": RD_WIRE[leaf](v2), "item": None, "items": []},
                     "items": [{"value": RD_WIRE[leaf](v1), "item": None, "items": []}]})
        return ({"item": {"value": w1}, "items": [{"value": w2}, {"value": w1}]}, [("$.item.value", v1), ("$.items[0].value", v2), ("$.items[1].value", v1)],
                {"item": {"value": RD_WIRE[leaf](v1)}, "items": [{"value": RD_WIRE[leaf](v2)}, {"value": RD_WIRE[leaf](v1)}]})

    def members(h):
        if style == "recursive":
            return [("$", h), ("$.item", h.item), ("$.items[0]", h.items[0])]
        return [("$.item", h.item), ("$.items[0]", h.items[0]), ("$.items[1]", h.items[1])]

    try:
        load(t1)
        w, _, _ = wire_and_value(t1, None)
        used = rng.sample(["unmarshal", "marshal", "codec", "build"], rng.randrange(1, 4))
        with quiet():
            for u in used:
                try:
                    if u == "unmarshal":
                        typelib.unmarshal(mod.Holder, w)
                    elif u == "marshal":
                        typelib.marshal(typelib.unmarshal(mod.Holder, w), t=mod.Holder)
                    elif u == "codec":
                        typelib.codec(mod.Holder).decode(json.dumps(w).encode())
                    else:
                        typelib.unmarshaller(mod.Holder), typelib.marshaller(mod.Holder)
                except Exception:  # noqa: BLE001
                    pass
        load(t2)
        H = mod.Holder
        member_cls = H if style == "recursive" else mod.Item
        w, wanted, wire_back = wire_and_value(t2, None)
        deferred = any(n.cyclic and hasattr(n.type, "__forward_arg__") for n in graph.static_order(H))
        sh.count("redefinition_histories")
        sh.eval(("redefinition", style, t1, t2, tuple(used)))
        rec = dict(style=style, first_member_type=t1, second_member_type=t2, used_before=str(used), member_deferred_by_reference=deferred,
                   module_src=redefinition_source(style, t2))
        for how, fn in (("unmarshal", lambda: typelib.unmarshal(H, w)), ("decode", lambda: typelib.codec(H).decode(json.dumps(w).encode()))):
            try:
                with quiet():
                    h = fn()
            except Exception as e:  # noqa: BLE001
                sh.violation("history-dependent-after-redefinition", op=how, observed=f"raised {type(e).__name__}: {e}"[:300], **rec)
                continue
            bad = [pth for pth, mem in members(h) if type(mem) is not member_cls]
            vals = []
            for pth, want in wanted:
                obj = h
                for part in pth[2:].replace("[", ".[").split("."):
                    obj = obj[int(part[1:-1])] if part.startswith("[") else getattr(obj, part)
                if type(obj) is not type(want) or obj != want:
                    vals.append((pth, repr(obj), repr(want)))
            if bad or vals:
                sh.violation("history-dependent-after-redefinition", op=how, stale_class_at=str(bad), wrong_values=str(vals)[:300], **rec)
                continue
            if how == "unmarshal":
                try:
                    with quiet():
                        m = typelib.marshal(h, t=H)
                    if canon(m, strict=True) != canon(wire_back, strict=True):
                        sh.violation("history-dependent-after-redefinition", op="marshal", observed=short(m, 300), expected=short(wire_back, 300), **rec)
                except Exception as e:  # noqa: BLE001
                    sh.violation("history-dependent-after-redefinition", op="marshal", observed=f"raised {type(e).__name__}: {e}"[:300], **rec)
    finally:
        sys.modules.pop(name, None)


def canaries(sh):
    sh.canary("outcomes-compare-by-representation", repr(canon(1, strict=True)) != repr(canon(1.0, strict=True)) and repr(canon(1, strict=True)) != repr(canon(True, strict=True)))
    a = [1]
    sh.canary("aliasing-visible", bool(set(mutable_ids({"k": a})) & set(mutable_ids([a]))))
    got = coldproc.run_in_fork(lambda: {"x": 1})
    sh.canary("fork-executor-works", got == ("ok", {"x": 1}))
    got = coldproc.run_in_fork(lambda: __import__("os")._exit(3))
    sh.canary("dead-child-detected", got[0] == "died")


def run_case(sh, i, plan):
    rng = case_rng(sh, i)
    if i % 8 == 3:
        for _ in range(6):
            redefinition_case(sh, rng)
        return
    opts = U.Opts(depth=rng.choice([1, 2, 2, 3]), flag_enums=False)
    prog = U.Program(rng)
    gen = U.Gen(prog, rng, opts)
    specs = [gen.type(opts.depth) for _ in range(rng.choice([2, 3, 4]))]
    has_twins = rng.random() < 0.3
    if has_twins:
        specs += twins(rng, prog, gen)
        sh.count("union_twin_histories")
    if rng.random() < 0.5:
        specs.append(gen.scalar(rng.choice(["datetime", "time", "Decimal", "Fraction", "int", "float", "str", "bool"])))
        specs.append(gen.scalar(rng.choice(["Decimal", "float", "str", "datetime", "int"])))
    bare_idx = []
    if rng.random() < 0.4:
        for src in rng.sample(["list", "dict", "typing.Any", "object", "list[typing.Any]", "dict[str, typing.Any]", "tuple", "set", "typing.List", "typing.Mapping",
                                "tuple", "tuple[list, int]", "tuple[typing.Any, ...]", "tuple[dict, ...]", "list[tuple]", "dict[str, tuple]"], 2):
            specs.append(prog.spec("any", src))
            bare_idx.append(len(specs) - 1)
    gen_idx = []
    if rng.random() < 0.3:
        # one user generic class in several parametrisations (and bare): whichever is built first must not shape the others
        gname = prog.fresh("G")
        flav = rng.choice(["dataclass", "plain"])
        if flav == "dataclass":
            prog.emit(f"_T{gname} = typing.TypeVar('_T{gname}')\n@dataclasses.dataclass\nclass {gname}(typing.Generic[_T{gname}]):\n"
                      f"    item: _T{gname}\n    tags: typing.List[_T{gname}] = dataclasses.field(default_factory=list)\n")
        else:
            prog.emit(f"_T{gname} = typing.TypeVar('_T{gname}')\nclass {gname}(typing.Generic[_T{gname}]):\n"
                      f"    def __init__(self, item: _T{gname}, tags: typing.List[_T{gname}] = ()):\n        self.item, self.tags = item, list(tags)\n"
                      f"    def __eq__(self, o):\n        return type(o) is type(self) and (o.item, o.tags) == (self.item, self.tags)\n"
                      f"    def __repr__(self):\n        return f'{gname}({{self.item!r}}, {{self.tags!r}})'\n")
        for param in rng.sample(["int", "str", "float", "decimal.Decimal", None, "bool"], rng.choice([2, 3])):
            specs.append(prog.spec("any", f"{gname}[{param}]" if param else gname))
            gen_idx.append(len(specs) - 1)
        sh.count("user_generic_histories")
    prog.build()
    other = None
    extra_progs = []
    srcs_extra = []
    try:
        types = [s.t for s in specs]
        tw_idx = [k for k, s in enumerate(specs) if (s.kind == "union" and not s.kids) or s.kind == "any"]
        vg = U.ValueGen(rng)
        values = []
        for ti, s in enumerate(specs):
            if ti in tw_idx or s.kind == "any":
                continue
            for vi in range(3):
                values.append((ti, vi, vg.value(s)))
        prepared = coldproc.run_in_fork(lambda: prep(types, values), timeout=60)
        if prepared[0] != "ok":
            sh.count("prep_failed")
            return
        inputs = []

        def add(x):
            inputs.append(x)
            return len(inputs) - 1

        ops = []
        by_type = {}
        for rec, (ti, vi, v) in zip(prepared[1], values):
            by_type.setdefault(ti, []).append((v, rec))
        n = rng.randrange(15, plan["maxlen"] + 1)
        eq_pool = equalish(rng)
        lib_ops = []
        for _ in range(n):
            r = rng.random()
            ti = rng.randrange(len(types))
            if r < 0.08:
                ops.append({"kind": "build", "t": ti})
            elif r < 0.14 and lib_ops:
                ops.append({"kind": "mutate_result", "j": rng.choice(lib_ops)})
                sh.count("result_mutations")
            elif r < 0.19 and lib_ops:
                ops.append({"kind": "mutate_input", "j": rng.choice(lib_ops)})
            elif r < 0.22:
                ops.append({"kind": "clear"})
            elif r < 0.225 and plan["pressure"]:
                ops.append({"kind": "pressure", "n": 105000})
                sh.count("cache_pressure_ops")
            elif r < 0.40:
                # equal-but-distinct inputs, each its own object, fed to ONE type in a burst (so an equality-keyed cache is hit)
                scal = [k for k, sp in enumerate(specs) if sp.kind == "scalar"]
                tb = rng.choice(scal) if scal and rng.random() < 0.7 else ti
                kind = rng.choice(["unmarshal", "unmarshal", "marshal"])
                for x0 in rng.sample(eq_pool, min(len(eq_pool), rng.choice([2, 2, 3]))):
                    sh.count("equal_but_distinct_inputs")
                    ops.append({"kind": kind, "t": tb, "x": add(safe_copy(x0))})
                    lib_ops.append(len(ops) - 1)
            elif r < 0.44:
                # ONE text offered to several types in a burst (a cache keyed on the text alone would serve the first type's answer)
                text = rng.choice(["2020-01-01", "2020-01-01T10:00:00+00:00", "12:30:00+00:00", "P1D", "PT1S", "1577836800", "1", "1.5", "[1, 2]", "null", "true"])
                scal = [k for k, sp in enumerate(specs) if sp.kind == "scalar"]
                targets = rng.sample(scal, min(len(scal), 3)) if len(scal) >= 2 else [ti, rng.randrange(len(types))]
                for tb in targets:
                    sh.count("one_text_several_types")
                    ops.append({"kind": "unmarshal", "t": tb, "x": add(text if rng.random() < 0.7 else text.encode())})
                    lib_ops.append(len(ops) - 1)
            elif r < 0.50:
                x = hostile.pool_item(rng)
                if hasattr(x, "__next__"):
                    continue
                ops.append({"kind": rng.choice(["unmarshal", "marshal"]), "t": ti, "x": add(safe_copy(x))})
            elif ti in by_type:
                v, rec = rng.choice(by_type[ti])
                kind = rng.choice(["marshal", "unmarshal", "unmarshal", "encode", "decode", "unmarshal-text", "unmarshal-value"])
                if kind == "marshal":
                    ops.append({"kind": "marshal", "t": ti, "x": add(copy.deepcopy(v))})
                elif kind == "unmarshal-value":
                    ops.append({"kind": "unmarshal", "t": ti, "x": add(copy.deepcopy(v))})
                elif kind == "encode":
                    ops.append({"kind": "encode", "t": ti, "x": add(copy.deepcopy(v)), "via": rng.choice(["codec", "api"]),
                                "coder": rng.choice([None, None, "indent"])})  # (a second codec for the same type with coders of its own)
                elif rec["wire"] is None and kind != "decode":
                    continue
                elif kind == "unmarshal":
                    ops.append({"kind": "unmarshal", "t": ti, "x": add(copy.deepcopy(rec["wire"]))})
                elif kind == "unmarshal-text":
                    txt = json.dumps(rec["wire"])
                    ops.append({"kind": "unmarshal", "t": ti, "x": add(rng.choice([txt, txt.encode(), bytearray(txt.encode())]))})
                elif rec["bytes"] is not None:
                    ops.append({"kind": "decode", "t": ti, "x": add(rec["bytes"].encode("latin-1")), "via": rng.choice(["codec", "api"])})
                else:
                    continue
            elif ti in gen_idx:
                w = copy.deepcopy(rng.choice([{"item": 5, "tags": [1, 2]}, {"item": "7", "tags": ["8"]}, {"item": 1.5}, {"item": True, "tags": [0]},
                                              '{"item": 3, "tags": [4]}']))
                k2 = rng.choice(["unmarshal", "unmarshal", "decode", "build"])
                if k2 == "decode":
                    ops.append({"kind": "decode", "t": ti, "x": add(json.dumps(w).encode() if not isinstance(w, str) else w.encode()), "via": rng.choice(["codec", "api"])})
                else:
                    ops.append({"kind": k2, "t": ti, "x": add(w)})
                sh.count("user_generic_ops")
            elif ti in bare_idx:
                x0 = rng.choice(["[1, 2]", '{"a": [1, 2]}', "[[1], [2]]", b"[1, 2]", [1, [2]], {"a": {"b": 1}}, "(1, 2)", "{'k': [1]}", '{"a": 1}',
                                 # text that loads to an immutable container holding mutable ones (python-literal tuples / frozen forms)
                                 "([1, 2], 3)", b"({'a': 1}, {'b': 2})", "({7}, 8)", "([0], [1])", "(([1], 2), 3)", "{'k': ([1], 2)}", "[([1],), ([2],)]",
                                 '{"t": [[1, 2], 3]}'])
                kind = rng.choice(["unmarshal", "unmarshal", "marshal"])
                # the same text twice (two distinct-but-equal objects where the input is mutable): a memoising loader is hit
                for _rep in range(rng.choice([1, 2, 2])):
                    sh.count("bare_container_ops")
                    ops.append({"kind": kind, "t": ti, "x": add(safe_copy(x0))})
                    lib_ops.append(len(ops) - 1)
            elif ti in tw_idx:
                x = copy.deepcopy(rng.choice(["5", 5, "abc", 1.5, "1.5", True, "2020-01-01", "00000000-0000-0000-0000-000000000001", b"7"]))
                ops.append({"kind": rng.choice(["unmarshal", "marshal"]), "t": ti, "x": add(x)})
            else:
                continue
            if ops and ops[-1]["kind"] in ("build", "marshal", "unmarshal", "encode", "decode") and (not lib_ops or lib_ops[-1] != len(ops) - 1):
                lib_ops.append(len(ops) - 1)
            # the very same input OBJECT offered again (fully annotated types must still hand out a new result)
            if ops and ops[-1].get("x") is not None and ops[-1]["kind"] == "unmarshal" and rng.random() < 0.25:
                ops.append(dict(ops[-1]))
                lib_ops.append(len(ops) - 1)
                sh.count("same_input_object_twice")
        # D27 scenario: the same unqualified string reference issued from two modules that both define the name
        if rng.random() < 0.15:
            other = U.Program(rng)
            og = U.Gen(other, rng, opts)
            og.struct(1, flavour="dataclass", name="SameName", fields=[["x", og.scalar("str"), None]])
            other.build()
            pa = U.Program(rng)
            ga = U.Gen(pa, rng, opts)
            ga.struct(1, flavour="dataclass", name="SameName", fields=[["x", ga.scalar("int"), None]])
            pa.build()
            extra_progs.append(pa)
            sh.count("two_module_string_ref_histories")
            for pr in rng.sample([pa, other, pa, other], 3):
                ops.append({"kind": "strref", "t": 0, "ref": "SameName", "caller": pr.module._call2, "x": add({"x": "5"}), "module": pr.name})
                lib_ops.append(len(ops) - 1)
            # ... and the two same-named classes used directly as type objects (no string involved)
            for pr in rng.sample([pa, other, pa, other], 3):
                types.append(pr.module.SameName)
                srcs_extra.append(f"{pr.name}.SameName")
                ops.append({"kind": rng.choice(["unmarshal", "build"]), "t": len(types) - 1, "x": add({"x": "5"})})
                lib_ops.append(len(ops) - 1)
        for o in ops:
            if "t" in o and (o["t"] in bare_idx or o["t"] in gen_idx or o["t"] in tw_idx or o["kind"] in ("strref", "marshal", "encode")):
                o["passthrough"] = True  # marshal may hand back immutable inputs / pass-through members; only unmarshal of annotated types is strict
        if not lib_ops:
            return
        sh.count("histories")
        hist = coldproc.run_in_fork(lambda: run_history(ops, types, inputs), timeout=120)
        if hist[0] != "ok":
            sh.inconclusive.append(f"history child {hist}") if len(sh.inconclusive) < 3 else None
            sh.count("history_child_failed")
            return
        houts, notes = hist[1]["outs"], hist[1]["notes"]
        sh.count("aliasing_checks", hist[1]["checks"])
        srcs = [s.src for s in specs] + srcs_extra
        for note in notes:
            sh.violation(note["note"], op=note["op"], op_kind=note["kindop"], detail=short(note, 300), type_src=srcs[ops[note["op"]]["t"]],
                         history=short([(o["kind"], o.get("t")) for o in ops[: note["op"] + 1]][-12:], 400))
        for idx in lib_ops:
            op = ops[idx]
            if houts[idx][0] == "skip":
                continue
            cold = coldproc.run_in_fork(lambda: do_op(op, types, inputs)[1], timeout=30)
            if cold[0] != "ok" or cold[1][0] == "skip":
                sh.count("cold_child_failed")
                continue
            x = inputs[op["x"]] if op.get("x") is not None else None
            try:
                key = canon(x, strict=True)
            except Exception:  # noqa: BLE001
                key = repr(type(x))
            sh.eval((srcs[op["t"]], op["kind"], key))
            sh.count("ops_compared_with_cold")
            if houts[idx] != cold[1]:
                mech = None
                T = types[op["t"]]
                # nested twins: a union somewhere inside this type equals (==) a union of another member order inside an
                # earlier operation's type - the memoised unwrap()/predicates then hand the earlier spelling to this build
                mine_u = unions_in(specs, op["t"])
                for j in range(idx):
                    if "t" in ops[j] and ops[j]["t"] != op["t"]:
                        for u2 in unions_in(specs, ops[j]["t"]):
                            for u1 in mine_u:
                                try:
                                    if u1 == u2 and typing_args(u1) != typing_args(u2):
                                        mech = "union-permutation"
                                except Exception:  # noqa: BLE001
                                    pass
                if op["kind"] == "strref" and any(o["kind"] == "strref" and o["module"] != op["module"] for o in ops[:idx]):
                    mech = "string-ref-cache"
                for j in range(idx):
                    oj = ops[j]
                    if "t" in oj and oj["t"] != op["t"]:
                        Tj = types[oj["t"]]
                        try:
                            if Tj == T and str(Tj) != str(T):
                                mech = "union-permutation"
                        except Exception:  # noqa: BLE001
                            pass
                sh.violation("history-dependent", op=idx, op_kind=op["kind"], type_src=srcs[op["t"]], input=short(x, 200), in_history=short(houts[idx], 300),
                             alone=short(cold[1], 300), mechanism=mech,
                             history=short([(o["kind"], srcs[o["t"]] if "t" in o else None) for o in ops[: idx + 1]][-10:], 600),
                             module_src=prog.source[-2000:])
        if i % 25 == 0:
            sh.sample({"types": srcs, "ops": [o["kind"] for o in ops][:20]})
    finally:
        prog.drop()
        for p_ in extra_progs + ([other] if other is not None else []):
            p_.drop()


def run_shard(sh):
    plan = PLAN[sh.tier]
    sh.run_cases(per_shard(plan["histories"], sh.nshards, sh.shard), lambda i: run_case(sh, i, plan), timeout_s=400)

    # second workload: the repository's own test-suite, watched by the spec-free monitors of vlib/suitemon.py (last, so that its
    # cache state cannot shape the cases above); one shard runs it
    if sh.shard == sh.nshards - 1:
        from vlib import suitemon

        suitemon.run_repo_suite(sh, ['determinism'])
    else:
        for k in ['suite_unmarshal_determinism_judged', 'suite_tests_passed']:
            sh.count(k, 0)
