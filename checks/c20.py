"""C20 - future.transform preserves the meaning of annotation expressions."""
from __future__ import annotations

import ast
import collections.abc
import datetime
import re
import types
import typing

from typelib.py import future

from vlib.workload import case_rng, per_shard

ID = "C20"
LEVEL = "exploration"
RULE = ("annotation strings from a grammar (names, dotted names, subscripts, tuples, ellipsis, |-chains of every associativity and "
        "parenthesisation, Literal[...] with strings containing '|' and '[', Callable[[...], ...], Annotated[...], string forward "
        "references) to depth 4, plus non-annotation expressions; one evaluation = one transform() result checked on all clauses "
        "(totality, structural equality of the evaluated types, no PEP 604 union left outside constants, fixpoint, AST identity "
        "when nothing to rewrite); distinct = distinct input string; non-trivial = the string contains a construct to rewrite")
ASSUMPTIONS = [
    "structural comparison normalises what typing itself introduces: bare typing.Tuple == tuple, None == NoneType as an argument, 'Foo' == ForwardRef('Foo'); Union members compare as a set (typing interns equal unions)",
    "semantic equality is only demanded of strings that evaluate to a type; arithmetic containing '|' is only checked for termination",
]
PLAN = {"quick": dict(cases=40000), "thorough": dict(cases=1500000)}
FLOORS = {"quick": {"semantic_checked": 25000, "fixpoint_checked": 35000, "ast_identity_checked": 3000, "with_pipe": 11000, "custom_union_checked": 3000},
          "thorough": {"semantic_checked": 900000, "fixpoint_checked": 1300000, "ast_identity_checked": 100000, "with_pipe": 350000, "custom_union_checked": 100000}}


class Foo:
    pass


class Bar(typing.Generic[typing.TypeVar("T")]):
    pass


class Meta:
    """Annotated[...] metadata built by a call (positional and keyword arguments may themselves hold annotations)."""

    def __init__(self, *a, **k):
        self.a, self.k = a, k

    def __repr__(self):
        def stable(y):
            # sets (union members) are rendered in sorted order: the iteration order of two equal frozensets of classes may differ
            if isinstance(y, (set, frozenset)):
                return "{" + ", ".join(sorted(stable(e) for e in y)) + "}"
            if isinstance(y, (tuple, list)):
                return "(" + ", ".join(stable(e) for e in y) + ")"
            return repr(y)

        def n(x):
            try:
                return stable(norm(x))
            except Exception:  # noqa: BLE001
                return repr(x)

        return "Meta(" + ", ".join([n(x) for x in self.a] + [f"{k}={n(v)}" for k, v in sorted(self.k.items())]) + ")"


_T = typing.TypeVar("_T")


class _UserGeneric(typing.Generic[_T]):
    pass


class _Namespace:
    """A module-like object whose attributes are NAMED like builtin generics but are something else: attribute access is not a
    builtin name and must be left alone by the rewriting."""


ns = _Namespace()
for _n in ("list", "dict", "set", "tuple", "Pattern", "frozenset"):
    setattr(ns, _n, type(f"My_{_n}", (_UserGeneric,), {}))
ns.sub = ns

NS = {
    "ns": ns,
    "Meta": Meta,
    "typing": typing, "t": typing, "collections": collections, "datetime": datetime, "re": re, "Literal": typing.Literal,
    "Annotated": typing.Annotated, "Callable": typing.Callable, "Optional": typing.Optional, "Union": typing.Union,
    "Pattern": typing.Pattern, "Foo": Foo, "Bar": Bar, "Any": typing.Any, "Sequence": typing.Sequence, "Mapping": typing.Mapping,
}
ATOMS = ["int", "str", "float", "bytes", "bool", "None", "Foo", "typing.Any", "t.Any", "datetime.date", "datetime.datetime",
         "list", "dict", "set", "tuple", "Pattern", "collections.abc.Hashable", "Any", "'Foo'", "object", "complex",
         # quoted forward references whose TEXT holds the constructs the rewriting is about: a constant stays the constant it was
         "'list[int]'", "'Foo | None'", "'dict[str, Foo]'"]
MAPPED = ("dict", "list", "set", "tuple", "Pattern")


def gen(rng, depth, in_union=False):
    if depth <= 0 or rng.random() < 0.25:
        return rng.choice(ATOMS)
    r = rng.random()
    if r < 0.30 and not in_union:
        n = rng.choice([2, 2, 3, 4])
        parts = [gen(rng, depth - 1, in_union=True) for _ in range(n)]
        # random parenthesisation / associativity
        while len(parts) > 1:
            i = rng.randrange(len(parts) - 1)
            joined = f"{parts[i]} | {parts[i + 1]}"
            if len(parts) > 2 and rng.random() < 0.6:
                joined = f"({joined})"
            parts[i:i + 2] = [joined]
        return parts[0]
    if r < 0.30:
        return gen(rng, depth - 1, True)
    k = rng.choice(["list", "dict", "set", "tuplevar", "tuplefix", "typing.List", "typing.Dict", "Optional", "Union", "Literal",
                    "Callable", "Callable...", "Annotated", "AnnotatedCall", "attr", "type", "Mapping", "Sequence", "Pattern", "Bar", "frozenset",
                    "collections.abc.Mapping", "paren"])
    g = lambda: gen(rng, depth - 1)  # noqa: E731
    if k == "list":
        return f"list[{g()}]"
    if k == "dict":
        return f"dict[{rng.choice(['str', 'int', 'str | int'])}, {g()}]"
    if k == "set":
        return f"set[{rng.choice(['int', 'str', 'int | None', 'Foo'])}]"
    if k == "frozenset":
        return f"frozenset[{rng.choice(['int', 'str', 'int | str'])}]"
    if k == "tuplevar":
        return f"tuple[{g()}, ...]"
    if k == "tuplefix":
        return "tuple[" + ", ".join(g() for _ in range(rng.choice([1, 2, 3]))) + "]"
    if k == "typing.List":
        return f"typing.List[{g()}]"
    if k == "typing.Dict":
        return f"t.Dict[str, {g()}]"
    if k == "Optional":
        return f"{rng.choice(['Optional', 'typing.Optional'])}[{g()}]"
    if k == "Union":
        return f"typing.Union[{g()}, {g()}]"
    if k == "Literal":
        vals = rng.sample(['"a|b"', "'[x]'", '"int | str"', "1", "True", "None", "'list[int]'", '"|"', "-1",
                            # string values whose spelling matters character by character: runs of blanks, a real tab / newline escape,
                            #   quotes inside quotes, a backslash
                            '"a  |  b"', "'x\ty'", "'p   [q]'", "'tab\there'", '"it\'s"', "'back\\\\slash'", "'line\\nbreak'", '" lead"', '"trail "'], rng.choice([1, 2, 3]))
        return f"{rng.choice(['Literal', 'typing.Literal'])}[{', '.join(vals)}]"
    if k == "Callable":
        return f"Callable[[{', '.join(g() for _ in range(rng.choice([0, 1, 2])))}], {g()}]"
    if k == "Callable...":
        return f"typing.Callable[..., {g()}]"
    if k == "Annotated":
        return f"Annotated[{g()}, {rng.choice(['1', chr(34) + 'meta|x' + chr(34), chr(39) + 'list[int]' + chr(39)])}]"
    if k == "attr":
        # an attribute that is merely called like a builtin generic
        return f"{rng.choice(['ns', 'ns.sub'])}.{rng.choice(['list', 'dict', 'set', 'tuple', 'Pattern'])}[{g()}]"
    if k == "AnnotatedCall":
        # metadata built by a call whose positional AND keyword arguments hold annotations
        return f"Annotated[{g()}, Meta({g()}, alt={g()}{', of=' + g() if rng.random() < 0.4 else ''})]"
    if k == "type":
        return f"type[{rng.choice(['Foo', 'int', 'Foo | int'])}]"
    if k == "Mapping":
        return f"Mapping[str, {g()}]"
    if k == "Sequence":
        return f"Sequence[{g()}]"
    if k == "Pattern":
        return rng.choice(["Pattern[str]", "Pattern[bytes]", "typing.Pattern[str]"])
    if k == "Bar":
        return f"Bar[{g()}]"
    if k == "collections.abc.Mapping":
        return f"collections.abc.Mapping[str, {g()}]"
    return f"({g()})"


NON_ANNOTATIONS = ["a + b", "f(x, y=2)", "f(x, default=a | b)", "Meta(of=dict[str, int])", "g(*a, k=list[int | None], **kw)", "[x for x in y]", "a.b.c(d)[e]", "x if y else z", "lambda q: q", "1 + 2 * 3", "not a", "a < b",
                   "{1: 2}", "a + b | c", "f(a | b)", "x[1:2]", "(a, b)", "a and b", "-x", "a @ b", "f'{x}'", "a | b + c", "{*a, *b}"]


def norm(x, depth=0):
    if x is None or x is type(None):
        return "None"
    if isinstance(x, str):
        return ("ref", x)
    if isinstance(x, typing.ForwardRef):
        return ("ref", x.__forward_arg__)
    if isinstance(x, list):
        return ("arglist", tuple(norm(e, depth + 1) for e in x))
    o, a = typing.get_origin(x), typing.get_args(x)
    if o is None:
        return ("cls", x)
    if o in (typing.Union, types.UnionType):
        ms = frozenset(norm(e, depth + 1) for e in a)
        # typing collapses a union of equal members (Dict[str, X] | dict[str, X] after rewriting) into that member
        return next(iter(ms)) if len(ms) == 1 else ("Union", ms)
    if o is typing.Literal:
        return ("Literal", frozenset((type(v).__name__, v) for v in a))  # typing interns equal Literals (order-free equality)
    if o is typing.Annotated:
        return ("Annotated", norm(a[0], depth + 1), tuple(repr(m) for m in a[1:]))
    if not a:
        return ("cls", o)
    return ("gen", o, tuple(norm(e, depth + 1) for e in a))


_LEAF_NORMAL = {"typing.Dict": "dict", "typing.List": "list", "typing.Set": "set", "typing.Tuple": "tuple", "typing.Pattern": "Pattern"}


def leaf_tokens(tree):
    """The names, dotted names and constants of an expression in SOURCE ORDER, with the documented renamings undone and the inserted
    `typing.Union` heads dropped. Rewriting `a | b` into `typing.Union[a, b]` and renaming builtin generics keeps this sequence: the
    arguments of every origin stay in the order they were written (evaluated unions cannot show that - typing's equality and its
    caches ignore member order)."""
    out = []

    def dotted(n):
        parts = []
        while isinstance(n, ast.Attribute):
            parts.append(n.attr)
            n = n.value
        if isinstance(n, ast.Name):
            parts.append(n.id)
            return ".".join(reversed(parts))
        return None

    def walk(n):
        if isinstance(n, ast.Name):
            out.append(n.id)
        elif isinstance(n, ast.Attribute):
            d = dotted(n)
            if d is None:
                walk(n.value)
                out.append("." + n.attr)
            else:
                out.append(d)
        elif isinstance(n, ast.Constant):
            out.append(("const", type(n.value).__name__, repr(n.value)))
        else:
            for c in ast.iter_child_nodes(n):
                if not isinstance(c, (ast.operator, ast.expr_context, ast.unaryop, ast.cmpop, ast.boolop)):
                    walk(c)

    walk(tree)
    return [_LEAF_NORMAL.get(t, t) if isinstance(t, str) else t for t in out if t != "typing.Union"]


def has_bitor(tree):
    return any(isinstance(n, ast.BinOp) and isinstance(n.op, ast.BitOr) for n in ast.walk(tree))


def mentions_mapped(tree):
    return any(isinstance(n, ast.Name) and n.id in MAPPED for n in ast.walk(tree))


def check(sh, s, semantic=True):
    sh.eval(s)
    try:
        tree = ast.parse(s, mode="eval")
    except SyntaxError:
        return
    pipe = has_bitor(tree)
    if pipe:
        sh.count("with_pipe")
    try:
        out = future.transform(s)
    except RecursionError:
        return
    except Exception as e:  # noqa: BLE001
        sh.violation("raised", input=s, exc=type(e).__name__, detail=str(e)[:200])
        return
    try:
        out_tree = ast.parse(out, mode="eval")
    except SyntaxError as e:
        sh.violation("output-not-python", input=s, output=out, detail=str(e))
        return
    if semantic:
        if has_bitor(out_tree):
            sh.violation("pep604-left", input=s, output=out)
        if mentions_mapped(out_tree):
            sh.violation("builtin-generic-left", input=s, output=out)
    # fixpoint
    try:
        out2 = future.transform(out)
        sh.count("fixpoint_checked")
        if out2 != out and semantic:
            sh.violation("not-a-fixpoint", input=s, output=out, again=out2)
    except Exception as e:  # noqa: BLE001
        sh.violation("raised-on-own-output", input=s, output=out, exc=type(e).__name__)
    # AST identity when nothing to rewrite
    if not pipe and not mentions_mapped(tree):
        sh.count("ast_identity_checked")
        if ast.dump(out_tree) != ast.dump(tree):
            sh.violation("ast-changed", input=s, output=out)
    if not semantic:
        return
    # argument order: the leaves of the expression keep their source order
    sh.count("leaf_order_checked")
    la, lb = leaf_tokens(tree), leaf_tokens(out_tree)
    if la != lb:
        sh.violation("argument-order-changed", input=s, output=out, expected=str(la)[:300], got=str(lb)[:300])
    try:
        a = eval(s, dict(NS))  # noqa: S307
    except Exception:  # noqa: BLE001
        sh.count("input_not_evaluable")
        return
    try:
        b = eval(out, dict(NS))  # noqa: S307
    except Exception as e:  # noqa: BLE001
        sh.violation("output-not-evaluable", input=s, output=out, exc=type(e).__name__, detail=str(e)[:200])
        return
    sh.count("semantic_checked")
    try:
        same = norm(a) == norm(b)
    except Exception:  # noqa: BLE001
        same = a == b
    if not same:
        sh.violation("meaning-changed", input=s, output=out, expected=str(norm(a))[:300], got=str(norm(b))[:300])
    # custom union name: the requested name is the one used, whatever was asked for the same text before, and asking for the
    # default again afterwards gives the default output again
    if pipe and hash(s) % 3 == 0:
        try:
            out3 = future.transform(s, union="Uni0n")
            sh.count("custom_union_checked")
            if norm(eval(out3, {**NS, "Uni0n": typing.Union})) != norm(a):  # noqa: S307
                sh.violation("meaning-changed-custom-union", input=s, output=out3)
            if "typing.Union" not in s and out3 != out.replace("typing.Union[", "Uni0n["):
                sh.violation("custom-union-name-not-used", input=s, output=out3, default_output=out)
            out4 = future.transform(s)
            if out4 != out:
                sh.violation("default-output-changed-after-custom-union", input=s, first=out, later=out4)
        except Exception as e:  # noqa: BLE001
            sh.violation("raised-custom-union", input=s, exc=type(e).__name__)


def canaries(sh):
    sh.canary("union-member-lost", norm(typing.Union[int, str, None]) != norm(typing.Union[int, str]))
    sh.canary("set-vs-list", norm(typing.List[int]) != norm(typing.Set[int]))
    sh.canary("pipe-eq-union", norm(int | str) == norm(typing.Union[str, int]))
    sh.canary("builtin-eq-typing", norm(list[int]) == norm(typing.List[int]) and norm(tuple) == norm(typing.Tuple))
    sh.canary("bitor-detected", has_bitor(ast.parse("typing.List[int | str]", mode="eval")))
    lt = lambda x: leaf_tokens(ast.parse(x, mode="eval"))  # noqa: E731
    sh.canary("leaf-order-sees-reversal", lt("int | (str | None)") != lt("typing.Union[int, None, str]") and lt("int | (str | None)") == lt("typing.Union[int, str, None]"))
    sh.canary("leaf-order-undoes-renaming", lt("dict[str, list[int] | None]") == lt("typing.Dict[str, typing.Union[typing.List[int], None]]"))
    sh.canary("bitor-in-constant-ignored", not has_bitor(ast.parse("Literal['a|b']", mode="eval")))


def run_shard(sh):
    plan = PLAN[sh.tier]
    n = per_shard(plan["cases"], sh.nshards, sh.shard)

    def case(i):
        rng = case_rng(sh, i)
        if i % 50 == 49:
            s = rng.choice(NON_ANNOTATIONS)
            check(sh, s, semantic=False)
        else:
            s = gen(rng, rng.choice([1, 2, 2, 3, 3, 4]))
            check(sh, s)
        if i % 4000 == 0:
            sh.sample({"input": s, "output": future.transform(s)})

    sh.run_cases(n, case)
