"""C04 - scalar values survive their text and numeric wire forms exactly."""
from __future__ import annotations

import datetime
import decimal
import enum
import fractions
import pathlib
import uuid

import typelib
from typelib import serdes

from vlib import universe as U
from vlib.oracles import canon, read_iso_duration, same, short
from vlib.workload import case_rng, clear_typelib_caches, per_shard, quiet

ID = "C04"
LEVEL = "exploration"
RULE = ("full-range, boundary-biased generators for every scalar type (ints to 10^4000, finite floats incl. denormals, Decimals with "
        "exponents +-400, Fractions, all UUIDs incl. all-digit ones, paths, enum members, dates 0001..9999, tz-aware datetimes/times "
        "over every whole-minute offset, microseconds, fold, timedeltas over +-999999999 days); per value: Python's own text in five "
        "carriers must unmarshal back exactly, the marshalled text must be that text, the ISO text must be read back to the same "
        "value by an independent reader (CPython fromisoformat / a strict ISO-8601 duration reader), numeric<->temporal and "
        "temporal->text conversions must match the reference formulas, also after warming caches with an equal-but-differently-"
        "represented value; one evaluation = one (type, value) with all its clauses; distinct = (type, canonical strict value)")
ASSUMPTIONS = [
    "naive temporals, NaN/inf and sub-microsecond values are outside the statement; epoch seconds are limited to years 1..9999 and to the platform time_t",
    "time -> number anchors on 'today' in the library by design, so only unmarshal(time, unmarshal(float, t)) == t for UTC times is demanded",
    "float epoch seconds are compared against datetime.fromtimestamp(n, UTC), i.e. with CPython's own rounding",
]
PLAN = {"quick": dict(cases=14000), "thorough": dict(cases=600000)}
FLOORS = {"quick": {"text_roundtrips": 200000, "independent_reads": 30000, "numeric_to_temporal": 8000, "temporal_to_numeric": 8000,
                    "temporal_to_text": 8000, "warm_cache_histories": 3000, "offsets_seen": 1500},
          "thorough": {"text_roundtrips": 8000000, "independent_reads": 1200000, "numeric_to_temporal": 300000, "temporal_to_numeric": 300000,
                       "temporal_to_text": 300000, "warm_cache_histories": 120000, "offsets_seen": 2870}}

UTC = datetime.timezone.utc


class Color(enum.Enum):
    red = "red"
    one = "1"
    null = "null"
    lst = "[1]"
    n5 = 5
    f = 2.5
    date = "2020-01-01"
    empty = ""


class Num(enum.IntEnum):
    a = 1
    b = 2**40
    z = 0
    neg = -3


class StrE(str, enum.Enum):
    x = "x"
    one = "1"
    true = "true"
    j = '{"a":1}'


def carriers(text):
    b = text.encode("utf8")
    return [("str", text), ("bytes", b), ("bytearray", bytearray(b)), ("memoryview", memoryview(b)), ("memoryview-rw", memoryview(bytearray(b)))]


SCALARS = ["int", "float", "Decimal", "Fraction", "UUID", "PurePosixPath", "PureWindowsPath", "Path", "enum", "date", "datetime", "time", "timedelta"]


def make_value(kind, rng):
    if kind == "int":
        r = rng.random()
        if r < 0.3:
            return int, rng.choice([0, 1, -1, 10, -10, 2**31, 2**63, -(2**63), 2**64, 10**30, -(10**100), 10**3999, -(10**4000) + 1, 2**53 + 1])
        if r < 0.6:
            return int, rng.randrange(-(10**rng.randrange(1, 60)), 10**rng.randrange(1, 60))
        return int, rng.randrange(-(2**70), 2**70)
    if kind == "float":
        return float, U.gen_float(rng)
    if kind == "Decimal":
        return decimal.Decimal, U.gen_decimal(rng)
    if kind == "Fraction":
        return fractions.Fraction, U.gen_fraction(rng) if rng.random() < 0.7 else fractions.Fraction(rng.randrange(-10**30, 10**30), rng.randrange(1, 10**30))
    if kind == "UUID":
        if rng.random() < 0.25:
            digits = "".join(rng.choice("0123456789") for _ in range(32))
            return uuid.UUID, uuid.UUID(digits)
        return uuid.UUID, U.gen_uuid(rng)
    if kind == "PurePosixPath":
        return pathlib.PurePosixPath, pathlib.PurePosixPath(rng.choice(U.PATH_POOL + ["/", "a/../b", "~", "x.tar.gz"]))
    if kind == "PureWindowsPath":
        return pathlib.PureWindowsPath, pathlib.PureWindowsPath(rng.choice(U.WINPATH_POOL))
    if kind == "Path":
        return pathlib.Path, pathlib.Path(rng.choice(U.PATH_POOL))
    if kind == "enum":
        E = rng.choice([Color, Num, StrE])
        return E, rng.choice(list(E))
    if kind == "date":
        return datetime.date, U.gen_date(rng)
    if kind == "datetime":
        return datetime.datetime, U.gen_datetime(rng)
    if kind == "time":
        return datetime.time, U.gen_time(rng)
    return datetime.timedelta, U.gen_timedelta(rng)


def pytext(v):
    if isinstance(v, (datetime.date, datetime.time)):
        return v.isoformat()
    if isinstance(v, float):
        return repr(v)
    return str(v)


def independent_read(T, text):
    if T is datetime.timedelta:
        return read_iso_duration(text)
    return T.fromisoformat(text)


def check_value(sh, T, v, kind, warm=None):
    name = T.__name__
    sh.eval((name, canon(v, strict=True)))
    rec = dict(scalar=kind, value=short(v, 200))
    um = typelib.unmarshaller(T)
    if warm is not None:
        # history: caches warmed with an equal-but-differently-represented value first
        sh.count("warm_cache_histories")
        try:
            with quiet():
                typelib.unmarshal(T, typelib.marshal(warm, t=T))
                serdes.isoformat(warm) if isinstance(warm, (datetime.date, datetime.time, datetime.timedelta)) else None
        except Exception:  # noqa: BLE001
            pass
    if isinstance(v, (datetime.datetime, datetime.time)):
        sh.see("offsets_seen", int(v.utcoffset().total_seconds() // 60))
    # ---- marshalled text is Python's own text (timedelta: the ISO-8601 duration)
    try:
        with quiet():
            m = typelib.marshal(v, t=T)
    except Exception as e:  # noqa: BLE001
        sh.violation("marshal-raised", exc=type(e).__name__, detail=str(e)[:200], **rec)
        return
    if isinstance(v, enum.Enum):
        texts = [m] if not isinstance(m, str) else [m]
        if canon(m, strict=True) != canon(v.value, strict=True):
            sh.violation("enum-wire-not-value", wire=short(m), **rec)
        inputs = [("wire", v.value)]
        if isinstance(v.value, str):
            inputs += carriers(v.value)
    elif T is datetime.timedelta:
        text = m
        inputs = carriers(text) if isinstance(text, str) else []
    else:
        text = pytext(v)
        if m != text and not (T is float or T is int):
            sh.violation("marshal-text-differs", wire=short(m), expected=text[:200], **rec)
        inputs = carriers(text)
        if T in (int, float) and not same(m, v, strict=True):
            sh.violation("marshal-number-differs", wire=short(m), **rec)
    # ---- text in every carrier unmarshals back exactly
    for cname, x in inputs:
        sh.count("text_roundtrips")
        try:
            with quiet():
                u = um(x)
        except Exception as e:  # noqa: BLE001
            sh.violation("text-rejected", carrier=cname, text=short(x, 200), exc=type(e).__name__, detail=str(e)[:200], **rec)
            continue
        if not same(u, v):
            sh.violation("text-roundtrip-differs", carrier=cname, text=short(x, 200), observed=short(u, 200), **rec)
    # ---- temporals: ISO text, independent reader, numeric/text conversions
    if isinstance(v, (datetime.date, datetime.time, datetime.timedelta)):
        try:
            iso = serdes.isoformat(v)
        except Exception as e:  # noqa: BLE001
            sh.violation("isoformat-raised", exc=type(e).__name__, detail=str(e)[:200], **rec)
            return
        sh.count("independent_reads")
        try:
            back = independent_read(T, iso)
            if not same(back, v):
                sh.violation("iso-means-something-else", text=iso, reader_got=short(back, 200), **rec)
        except ValueError as e:
            sh.violation("iso-not-wellformed", text=iso, detail=str(e)[:200], **rec)
        # temporal -> text types
        sh.count("temporal_to_text")
        try:
            with quiet():
                s = typelib.unmarshal(str, v)
                b = typelib.unmarshal(bytes, v)
            if s != iso or b != iso.encode("utf8") or type(s) is not str or type(b) is not bytes:
                sh.violation("temporal-to-text-differs", expected=iso, observed=f"{s!r} / {b!r}"[:200], **rec)
        except Exception as e:  # noqa: BLE001
            sh.violation("temporal-to-text-raised", exc=type(e).__name__, detail=str(e)[:200], **rec)
        # temporal -> numeric types
        sh.count("temporal_to_numeric")
        try:
            if isinstance(v, datetime.timedelta):
                exp = v.total_seconds()
            elif isinstance(v, datetime.datetime):
                exp = v.timestamp()
            elif isinstance(v, datetime.date):
                exp = datetime.datetime(v.year, v.month, v.day, tzinfo=UTC).timestamp()
            else:
                exp = None
        except (OverflowError, OSError, ValueError):
            exp = None
        if exp is not None:
            try:
                with quiet():
                    f = typelib.unmarshal(float, v)
                    n = typelib.unmarshal(int, v)
                    d = typelib.unmarshal(decimal.Decimal, v)
                if f != exp or type(f) is not float or n != int(exp) or type(n) is not int or d != decimal.Decimal(exp):
                    sh.violation("temporal-to-number-differs", expected=repr(exp), observed=f"{f!r} / {n!r} / {d!r}", **rec)
            except Exception as e:  # noqa: BLE001
                sh.violation("temporal-to-number-raised", exc=type(e).__name__, detail=str(e)[:200], **rec)
        elif isinstance(v, datetime.time) and v.utcoffset() == datetime.timedelta(0):
            try:
                with quiet():
                    t2 = typelib.unmarshal(datetime.time, typelib.unmarshal(float, v))
                if not same(t2, v.replace(fold=0)) and not same(t2, v):
                    sh.violation("time-number-time-differs", observed=short(t2), **rec)
            except (OverflowError, OSError):
                pass
            except Exception as e:  # noqa: BLE001
                sh.violation("time-number-time-raised", exc=type(e).__name__, detail=str(e)[:200], **rec)


def check_numeric_to_temporal(sh, rng):
    r = rng.random()
    if r < 0.4:
        n = rng.choice([0, 1, -1, 86399, 86400, 2**31 - 1, 2**31, -(2**31), 253402300799, -62135596800 + 86400, 951782400, 1e9, 1.5, -1.5,
                        0.000001, 1234567890.123456, -0.5, 59.999999, 3600.25])
    elif r < 0.7:
        n = rng.choice([rng.randrange(-62135596800 + 86400, 253402300799), rng.randrange(10**8, 10**10)])
    else:
        n = rng.uniform(-6e10, 2.5e11)
    sh.count("numeric_to_temporal")
    sh.eval(("num->temporal", repr(n)))
    rec = dict(scalar="numeric->temporal", value=repr(n))
    try:
        ref = datetime.datetime.fromtimestamp(n, tz=UTC)
    except (OverflowError, OSError, ValueError):
        ref = None
    try:
        td_ref = datetime.timedelta(seconds=n)
    except OverflowError:
        td_ref = None
    for T, exp in ((datetime.datetime, ref), (datetime.date, ref.date() if ref else None), (datetime.time, ref.timetz() if ref else None),
                   (datetime.timedelta, td_ref)):
        if exp is None:
            continue
        try:
            with quiet():
                got = typelib.unmarshal(T, n)
        except Exception as e:  # noqa: BLE001
            sh.violation("number-to-temporal-raised", target=T.__name__, exc=type(e).__name__, detail=str(e)[:200], **rec)
            continue
        if not same(got, exp):
            sh.violation("number-to-temporal-differs", target=T.__name__, expected=short(exp), observed=short(got), **rec)
        # the same number as unambiguous digit text (9-10 digits: not a calendar format) reads alike
        if type(n) is int and 10**8 <= n < 10**10:
            for cname, x in carriers(str(n))[:2]:
                try:
                    with quiet():
                        got2 = typelib.unmarshal(T, x)
                except Exception as e:  # noqa: BLE001
                    sh.violation("digit-text-to-temporal-raised", target=T.__name__, carrier=cname, exc=type(e).__name__, detail=str(e)[:200], **rec)
                    continue
                if not same(got2, exp):
                    sh.violation("digit-text-to-temporal-differs", target=T.__name__, carrier=cname, expected=short(exp), observed=short(got2), **rec)


def equal_other_repr(v, rng):
    """A value that compares (and hashes) equal to v but is represented differently, or None."""
    if isinstance(v, datetime.datetime):
        off = datetime.timedelta(minutes=rng.randrange(-1439, 1440))
        try:
            return v.astimezone(datetime.timezone(off)).replace(fold=v.fold ^ 1)
        except (OverflowError, ValueError):
            return None
    if isinstance(v, datetime.time) and v.tzinfo is not None:
        # same instant-of-day under another offset
        base = datetime.datetime(2000, 1, 2, v.hour, v.minute, v.second, v.microsecond, tzinfo=v.tzinfo)
        off = datetime.timedelta(minutes=rng.randrange(-600, 600))
        w = base.astimezone(datetime.timezone(off))
        if w.date() == base.date():
            t = w.timetz()
            return t if t == v else None
        return None
    if isinstance(v, decimal.Decimal) and v == v:
        try:
            return decimal.Decimal(str(v) + ("0" if "." in str(v) and "E" not in str(v) else "")) if v == v else None
        except decimal.InvalidOperation:
            return None
    if isinstance(v, float) and v == int(v) and abs(v) < 2**53:
        return None
    if type(v) is int and abs(v) < 2**53:
        return None
    return None


def canaries(sh):
    t1 = datetime.time(1, 0, tzinfo=datetime.timezone(datetime.timedelta(hours=1)))
    sh.canary("offset-lost", not same(t1, datetime.time(0, 0, tzinfo=UTC)))
    sh.canary("micro-lost", not same(datetime.timedelta(microseconds=1), datetime.timedelta(0)))
    for bad in ("PT-1S", "P1DT", "PT", "P1W2D" if False else "P", "1D"):
        try:
            read_iso_duration(bad)
            sh.canary("strict-duration-reader-rejects-" + bad, False)
        except ValueError:
            sh.canary("strict-duration-reader-rejects-" + bad, True)
    sh.canary("duration-reader-reads", read_iso_duration("-P8DT3H0.000001S") == -datetime.timedelta(days=8, hours=3, microseconds=1))
    sh.canary("decimal-repr", same(decimal.Decimal("1.0"), decimal.Decimal("1.00")) and not same(decimal.Decimal("1.0"), decimal.Decimal("1.00"), strict=True))


def run_shard(sh):
    plan = PLAN[sh.tier]
    n = per_shard(plan["cases"], sh.nshards, sh.shard)

    def case(i):
        rng = case_rng(sh, i)
        if i % 500 == 0:
            clear_typelib_caches()
        for kind in SCALARS:
            T, v = make_value(kind, rng)
            warm = equal_other_repr(v, rng) if rng.random() < 0.5 else None
            check_value(sh, T, v, kind, warm)
            if i % 2000 == 0 and kind in ("datetime", "timedelta"):
                sh.sample({"type": T.__name__, "value": repr(v), "text": pytext(v) if T is not datetime.timedelta else serdes.isoformat(v)})
        check_numeric_to_temporal(sh, rng)

    sh.run_cases(n, case)
