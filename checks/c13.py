"""C13 - already-valid values pass through unmarshal unchanged; unmarshal is idempotent."""
from __future__ import annotations

import typelib

from vlib import hostile
from vlib import universe as U
from vlib.oracles import canon, describe, rt_diffs, same, short
from vlib.workload import case_rng, clear_typelib_caches, make_program, per_shard, quiet

ID = "C13"
LEVEL = "exploration"
RULE = ("union-free / Optional-only types from grammar U; pass-through: one evaluation = unmarshal(T, v) for a valid v made of "
        "exactly the annotated classes (adversarial strings, 2-element members first, str-mixin enums); idempotence: one "
        "evaluation = unmarshal(T, unmarshal(T, x)) for x from wire forms, their corruptions and the hostile pool whenever "
        "the first call returned; plus the repository's own test-suite run under an idempotence monitor on every unmarshal call and unmarshaller routine call of union-free, fully annotated types; distinct = (type source, canonical input); non-trivial = composite type or text-like value")
ASSUMPTIONS = [
    "values of abstractly spelled collection types are instances of the documented concrete builtin (Sequence -> list ...)",
    "one-shot iterator inputs are not re-fed for the idempotence form (their first result is a concrete container, which is)",
]
PLAN = {"quick": dict(programs=4000, depth=3, values=8, pool=8), "thorough": dict(programs=40000, depth=4, values=12, pool=16)}
FLOORS = {"quick": {"suite_unmarshal_idempotence_judged": 3000, "suite_tests_passed": 1400, "passthrough_checked": 80000, "idempotence_checked": 300000, "shapes": 4000},
          "thorough": {"suite_unmarshal_idempotence_judged": 3000, "suite_tests_passed": 1400, "passthrough_checked": 800000, "idempotence_checked": 800000, "shapes": 30000}}


def report(sh, kind, spec, a, b, tsrc, prog, extra=""):
    for path, pos, x, y in rt_diffs(spec, a, b)[:3]:
        sh.violation(kind, type_src=tsrc, pos=path, pos_src=pos.src, pos_desc=describe(pos), value=short(x, 300),
                     observed=short(y, 300), detail=extra, module_src=prog.source[-2500:])


def canaries(sh):
    import random

    rng = random.Random(3)
    prog, gen, _ = make_program(rng, U.Opts(depth=1), nroots=0)
    s = prog.spec("coll", "list[str]", [gen.scalar("str")], ctor="list", cls=list)
    prog.build()
    sh.canary("string-decoded-in-place", len(rt_diffs(s, ["1", "x"], [1, "x"])) == 1)
    sh.canary("dedup", len(rt_diffs(s, ["a", "a"], ["a"])) == 1)
    prog.drop()


def run_case(sh, i, plan):
    rng = case_rng(sh, i)
    clear_typelib_caches(also_typing=True)
    opts = U.Opts(depth=rng.choice([1, 2, 2, 3, plan["depth"]]), multi_unions=False)
    prog, gen, roots = make_program(rng, opts, nroots=3)
    vg = U.ValueGen(rng, flagged_patterns=True)
    try:
        for spec in roots:
            tsrc = spec.src
            sh.see("shapes", U.skeleton(spec))
            um = typelib.unmarshaller(spec.t)
            firsts = []
            for _ in range(plan["values"]):
                v = vg.value(spec)
                sh.eval((tsrc, "pt", canon(v)))
                try:
                    with quiet():
                        r = um(v) if rng.random() < 0.5 else typelib.unmarshal(spec.t, v)
                except RecursionError:
                    continue
                except Exception as e:  # noqa: BLE001
                    sh.violation("passthrough-raised", type_src=tsrc, value=short(v, 400), exc=type(e).__name__,
                                 detail=str(e)[:300], module_src=prog.source[-2500:])
                    continue
                sh.count("passthrough_checked")
                if not same(r, v):
                    report(sh, "passthrough-changed", spec, v, r, tsrc, prog)
                try:
                    with quiet():
                        w = typelib.marshal(v, t=spec.t)
                    firsts.append(("wire", w))
                    firsts.extend(("corrupt", c) for c in hostile.corruptions(w, rng, limit=6))
                except Exception:  # noqa: BLE001
                    pass
            firsts.extend(("pool", hostile.pool_item(rng)) for _ in range(plan["pool"]))
            for origin, x in firsts:
                if hasattr(x, "__next__"):
                    continue
                try:
                    with quiet():
                        r1 = um(x)
                except Exception:  # noqa: BLE001
                    sh.count("first_call_raised")
                    continue
                except RecursionError:
                    continue
                try:
                    sh.eval((tsrc, "idem", canon(x)))
                except Exception:  # noqa: BLE001
                    sh.eval()
                try:
                    with quiet():
                        r2 = um(r1)
                except RecursionError:
                    continue
                except Exception as e:  # noqa: BLE001
                    sh.violation("idempotence-raised", type_src=tsrc, input=short(x, 300), first=short(r1, 300),
                                 exc=type(e).__name__, detail=str(e)[:300], origin=origin, module_src=prog.source[-2500:])
                    continue
                sh.count("idempotence_checked")
                if not same(r2, r1):
                    report(sh, "idempotence-changed", spec, r1, r2, tsrc, prog, extra=f"input={short(x, 200)} origin={origin}")
            if i % 60 == 0:
                sh.sample({"type": tsrc, "inputs": [short(x, 80) for _, x in firsts[:5]]})
    finally:
        prog.drop()


def run_shard(sh):
    plan = PLAN[sh.tier]
    sh.run_cases(per_shard(plan["programs"], sh.nshards, sh.shard), lambda i: run_case(sh, i, plan))

    # second workload: the repository's own test-suite, watched by the spec-free monitors of vlib/suitemon.py (last, so that its
    # cache state cannot shape the cases above); one shard runs it
    if sh.shard == sh.nshards - 1:
        from vlib import suitemon

        suitemon.run_repo_suite(sh, ['idempotence'])
    else:
        for k in ['suite_unmarshal_idempotence_judged', 'suite_tests_passed']:
            sh.count(k, 0)
