"""C01 - unmarshal(T, marshal(v, t=T)) restores v (strict), fixpoint at ambiguous unions."""
from __future__ import annotations

import typelib

from vlib import universe as U
from vlib.oracles import canon, conforms, describe, localize, rt_diffs, same, short
from vlib.workload import case_rng, clear_typelib_caches, make_program, per_shard, quiet

ID = "C01"
LEVEL = "exploration"
RULE = ("programs synthesised from the type grammar U (DESIGN.md §3) with boundary-biased valid values; one evaluation = "
        "one (type, value) round trip through typelib.marshal/unmarshal (or the cached routine objects); distinct = "
        "distinct (type source, canonical value); non-trivial = the type is composite or the value is not a plain "
        "int/str (every generated case is kept, trivial scalars are <15% of the grammar)")
ASSUMPTIONS = [
    "valid values are built by the harness from its own spec tree (class constructors, stdlib types); naive temporals, NaN/inf, lone surrogates are outside U",
    "at a union position the strict law is demanded unless the first declared member unmarshaller that accepts the wire form (library's own member routines) returns something else; then the fixpoint law is demanded",
    "dict keys are scalars/enums/literals; unions nested inside set elements / dict keys are only held to the fixpoint law",
]
PLAN = {"quick": dict(programs=6000, values=8, depth=3), "thorough": dict(programs=30000, values=14, depth=5)}
FLOORS = {"quick": {"roundtrips": 100000, "strict_checked": 90000, "shapes": 6000},
          "thorough": {"roundtrips": 500000, "strict_checked": 400000, "shapes": 30000}}


def wire_eq(a, b, unordered=False):
    if not unordered:
        return a == b and canon(a) == canon(b)

    def norm(x):
        if isinstance(x, list):
            return ("L", tuple(sorted((norm(e) for e in x), key=repr)))
        if isinstance(x, dict):
            return ("D", tuple(sorted(((norm(k), norm(v)) for k, v in x.items()), key=repr)))
        return canon(x)

    return norm(a) == norm(b)


def declared_members(spec):
    return [None if i is None else spec.kids[i] for i in spec.info["order"]]


def union_facts(spec, x):
    """Mechanism facts at a union position holding the valid value x (all obtained from member routines built
    independently of the union routine):
      m_member / m_owner : first member marshaller (declared order) that accepts x, and whether x is an instance of it
      w                  : the wire form the union marshaller produced
      um_member          : first member unmarshaller (None first when w is None) that accepts w
      um_result          : what it returns
      um_reproduces      : whether that member alone maps w back to w (marshal_j(unmarshal_j(w)) == w)"""
    f = dict(m_member=None, m_owner=None, um_member=None, um_reproduces=None, w="<marshal raised>")
    members = declared_members(spec)
    for i, m in enumerate(members):
        if m is None:
            if x is None:
                f.update(m_member="None", m_owner=True)
                break
            continue
        try:
            with quiet():
                typelib.marshaller(m.t)(x)
        except Exception:  # noqa: BLE001
            continue
        f.update(m_member=f"{i}:{describe(m)}", m_owner=conforms(m, x, closed=True)[0])
        break
    try:
        with quiet():
            w = typelib.marshal(x, t=spec.t)
    except Exception as e:  # noqa: BLE001
        f["w"] = f"<marshal raised {type(e).__name__}>"
        return f, _MISSING, _MISSING
    f["w"] = short(w, 160)
    first = _MISSING
    if w is None and None in members:
        first = None
        f.update(um_member="None", um_reproduces=True)
    else:
        for i, m in enumerate(members):
            if m is None:
                continue
            try:
                with quiet():
                    r = typelib.unmarshaller(m.t)(w)
            except Exception:  # noqa: BLE001
                continue
            first = r
            try:
                with quiet():
                    back = typelib.marshaller(m.t)(r)
                rep = wire_eq(back, w, unordered=True)
            except Exception:  # noqa: BLE001
                rep = False
            f.update(um_member=f"{i}:{describe(m)}", um_reproduces=rep)
            break
    return f, w, first


_MISSING = object()


def union_position_ok(spec, x, y):
    """Union rule at one position (x original, y round-tripped, not same). Returns (ok, mode, detail, facts)."""
    f, w, first = union_facts(spec, x)
    if w is _MISSING:
        return False, "marshal-raised", f["w"], f
    if first is _MISSING:
        return False, "no-member-accepts-wire", f"wire={short(w, 120)}", f
    if same(first, x):
        return False, "strict-expected", f"first accepting member restores the value, union returned {short(y, 120)}", f
    # ambiguous position: an earlier member accepts this wire form differently -> fixpoint law
    try:
        with quiet():
            w2 = typelib.marshal(y, t=spec.t)
    except Exception as e:  # noqa: BLE001
        return False, "fixpoint-broken", f"marshal(unmarshal(m)) raised {type(e).__name__}: {e}"[:200], f
    if wire_eq(w, w2, U.facts(spec)["has_set"]):
        return True, "weak", "", f
    # who marshalled the re-read value y? (a lenient earlier member may have taken it)
    for i, m in enumerate(declared_members(spec)):
        if m is None:
            if y is None:
                f.update(y_m_member="None", y_m_owner=True)
                break
            continue
        try:
            with quiet():
                typelib.marshaller(m.t)(y)
        except Exception:  # noqa: BLE001
            continue
        f.update(y_m_member=f"{i}:{describe(m)}", y_m_owner=conforms(m, y, closed=True)[0])
        break
    return False, "fixpoint-broken", f"m={short(w, 120)} marshal(unmarshal(m))={short(w2, 120)}", f


def roundtrip_raises(spec, v):
    try:
        with quiet():
            typelib.unmarshal(spec.t, typelib.marshal(v, t=spec.t))
        return False
    except RecursionError:
        return False
    except Exception:  # noqa: BLE001
        return True


def report_raise(sh, spec, v, e, tsrc, prog):
    path, pos, x = localize(spec, v, roundtrip_raises)
    rec = dict(type_src=tsrc, value=short(v), exc=type(e).__name__, detail=str(e)[:300], pos=path, pos_src=pos.src,
               pos_desc=describe(pos), pos_value=short(x, 200), module_src=prog.source[-3000:])
    if pos.kind == "union":
        rec.update(union_facts(pos, x)[0])
    sh.violation("raised", **rec)


def union_hook(spec, x, y):
    """rt_diffs descends through a union position only if marshal and unmarshal both dispatched to the member
    the value is an instance of."""
    f, w, first = union_facts(spec, x)
    if f["m_owner"] and f["m_member"] is not None and f["m_member"] == f["um_member"]:
        idx = int(f["m_member"].split(":")[0])
        c = declared_members(spec)[idx]
        if c is not None and c.peel().kind not in ("scalar", "literal", "enum"):
            return c
    return None


def innermost_union(pos, x):
    """A union member may itself be (an alias / NewType of) a union. When the outer union dispatched x to that member on
    BOTH sides (it marshalled x and it is the first to accept the wire), the difference arises inside it: judge there."""
    for _ in range(10):
        f, w, first = union_facts(pos, x)
        if not (f["m_owner"] and f["m_member"] is not None and f["m_member"] == f["um_member"]):
            return pos
        member = declared_members(pos)[int(f["m_member"].split(":")[0])]
        if member is None or member.peel().kind != "union":
            return pos
        pos = member.peel()
    return pos


def has_order_twin(pos):
    """Is there, in the same program, another union object that is == to this one but lists its members in another order?
    (typing.Union equality ignores order; typelib's memoised helpers then serve the first spelling - finding D15.)"""
    import typing

    prog = pos.prog
    if prog is None or isinstance(pos.t, str):
        return False
    for sp in prog.specs:
        if sp.kind == "union" and sp is not pos and not isinstance(sp.t, str):
            try:
                if sp.t == pos.t and typing.get_args(sp.t) != typing.get_args(pos.t):
                    return True
            except Exception:  # noqa: BLE001
                pass
    return False


def has_union_below(spec):
    return any(s.kind == "union" for s in spec.walk())


def judge(sh, spec, v, u, tsrc):
    """Compare original and round-tripped value; report violations."""
    if same(u, v):
        sh.count("strict_checked")
        return True
    ok_all = True
    for path, pos, x, y in rt_diffs(spec, v, u, union_hook=union_hook):
        if pos.kind == "union":
            pos = innermost_union(pos, x)
            ok, mode, detail, uf = union_position_ok(pos, x, y)
            sh.count("union_rule_" + mode)
            if not ok:
                ok_all = False
                uf["union_twin"] = has_order_twin(pos)
                sh.violation("union-" + mode, type_src=tsrc, pos=path, pos_src=pos.src, pos_desc=describe(pos),
                             value=short(x), observed=short(y), detail=detail, **uf)
        elif pos.kind in ("coll", "mapping") and has_union_below(pos) and type(x) is type(y):
            # union nested in set elements / dict keys: positions cannot be aligned by index, so align through
            # the member-wise round trip (each element/key/value alone), then judge every aligned pair
            sh.count("unaligned_positions")
            try:
                with quiet():
                    if pos.kind == "coll":
                        pairs = [(pos.kids[0], e, typelib.unmarshal(pos.kids[0].t, typelib.marshal(e, t=pos.kids[0].t))) for e in x]
                        expect = type(x)(p[2] for p in pairs)
                    else:
                        kp = [(pos.kids[0], k_, typelib.unmarshal(pos.kids[0].t, typelib.marshal(k_, t=pos.kids[0].t))) for k_ in x]
                        vp = [(pos.kids[1], v_, typelib.unmarshal(pos.kids[1].t, typelib.marshal(v_, t=pos.kids[1].t))) for v_ in x.values()]
                        pairs = kp + vp
                        expect = type(x)(zip((p[2] for p in kp), (p[2] for p in vp)))
            except Exception as e:  # noqa: BLE001
                ok_all = False
                sh.violation("diff", type_src=tsrc, pos=path, pos_src=pos.src, pos_desc=describe(pos), value=short(x),
                             observed=short(y), detail=f"member-wise round trip raised {type(e).__name__}: {e}"[:300])
                continue
            if not same(expect, y):
                ok_all = False
                sh.violation("diff", type_src=tsrc, pos=path, pos_src=pos.src, pos_desc=describe(pos), value=short(x),
                             observed=short(y), detail="container result differs from the container of member-wise results: " + short(expect, 200))
                continue
            for sub, a, b in pairs:
                if not judge(sh, sub, a, b, tsrc):
                    ok_all = False
        else:
            ok_all = False
            sh.violation("diff", type_src=tsrc, pos=path, pos_src=pos.src, pos_desc=describe(pos), value=short(x),
                         observed=short(y), detail=f"{type(x).__name__} -> {type(y).__name__}")
    return ok_all


def canaries(sh):
    import datetime
    import random

    rng = random.Random(1)
    prog, gen, _ = make_program(rng, U.Opts(depth=1), nroots=0)
    s_list = prog.spec("coll", "list[int]", [gen.scalar("int")], ctor="list", cls=list)
    s_time = gen.scalar("time")
    prog.build()

    class Fake:
        def __init__(self):
            self.n = 0
            self.counters = {}

        def count(self, *a):
            pass

        def violation(self, *a, **k):
            self.n += 1

    f = Fake()
    judge(f, s_list, [1, 2], (1, 2), "list[int]")
    sh.canary("tuple-instead-of-list", f.n == 1)
    f = Fake()
    t1 = datetime.time(1, 0, tzinfo=datetime.timezone(datetime.timedelta(hours=1)))
    t2 = datetime.time(0, 0, tzinfo=datetime.timezone.utc)
    assert t1 == t2
    judge(f, s_time, t1, t2, "time")
    sh.canary("equal-instant-other-offset", f.n == 1)
    f = Fake()
    judge(f, s_list, [1, 2], [1, True], "list[int]")
    sh.canary("bool-instead-of-int", f.n == 1)
    prog.drop()


def run_case(sh, i, plan):
    rng = case_rng(sh, i)
    # every program starts from cold typelib/typing caches: typing.Union equality ignores member order, so a
    # routine cached for another spelling of "the same" union would otherwise be served (finding D15, see C12)
    clear_typelib_caches(also_typing=True)
    opts = U.Opts(depth=rng.choice([1, 2, 2, 3, 3, plan["depth"]]), none_members=True)
    prog, gen, roots = make_program(rng, opts, nroots=3)
    vg = U.ValueGen(rng)
    try:
        for spec in roots:
            tsrc = spec.src
            T = spec.t
            sh.see("shapes", U.skeleton(spec))
            for k in set(s.kind for s in spec.walk()):
                sh.count("kind_" + k)
            values = [vg.value(spec) for _ in range(plan["values"])]
            order = list(range(len(values))) * 2
            rng.shuffle(order)
            use_routine = rng.random() < 0.5
            for j in order[: plan["values"] + 2]:
                v = values[j]
                sh.eval((tsrc, canon(v)))
                sh.count("roundtrips")
                try:
                    with quiet():
                        if use_routine:
                            m = typelib.marshaller(T)(v)
                            u = typelib.unmarshaller(T)(m)
                        else:
                            m = typelib.marshal(v, t=T)
                            u = typelib.unmarshal(T, m)
                except RecursionError:
                    sh.count("recursion_skipped")
                    continue
                except Exception as e:  # noqa: BLE001
                    report_raise(sh, spec, v, e, tsrc, prog)
                    continue
                if not judge(sh, spec, v, u, tsrc) and len(sh.violations) < 50:
                    sh.violations[-1]["module_src"] = prog.source[-3000:]
                    sh.violations[-1]["wire"] = short(m)
            if i % 50 == 0:
                sh.sample({"type": tsrc, "value": short(values[0], 160)})
    finally:
        prog.drop()


def run_shard(sh):
    plan = PLAN[sh.tier]
    sh.run_cases(per_shard(plan["programs"], sh.nshards, sh.shard), lambda i: run_case(sh, i, plan))
