"""C15 - every valid annotation yields working routines; unresolvable positions pass through; builds are repeatable."""
from __future__ import annotations

import itertools
import dataclasses
import sys
import types
import typing

import typelib

from checks.c09 import Steps, StepBudgetExceeded
from vlib.oracles import canon, short
from vlib.workload import case_rng, clear_typelib_caches, per_shard, quiet

ID = "C15"
LEVEL = "exploration"
RULE = ("annotations built from ~48 leaf kinds (scalars, Any, object, bare and typing-spelled unparameterised containers, free/bound/"
        "constrained TypeVars, Callable forms, type[X], bare and parameterised user generics, classes without hints, Enum, dataclass, "
        "NamedTuple, TypedDict, Literal) under ~24 constructors (builtin/typing/collections.abc collections and mappings, fixed and variadic "
        "tuples incl. two variadic tuples in one class, Optional/Union/X|None, NewType, TypeAliasType, Final, ClassVar, dataclass / "
        "NamedTuple / TypedDict fields, user generic parameter): constructor depth 0-1 exhaustive, depth 2 exhaustive in the thorough tier "
        "(sampled in quick), depth 3 sampled; one evaluation = one annotation for which marshaller, unmarshaller and codec were built under "
        "a step budget, probed for pass-through at unresolvable positions and rebuilt (warm and after clearing caches) with the same "
        "behavioural fingerprint; distinct = annotation source")
ASSUMPTIONS = [
    "only annotations typing itself accepts at runtime are used (a constructor application that typing rejects is skipped, and counted)",
    "forms the property does not list (Annotated, Counter[str], Generator, tuple[()], NoReturn) are not generated",
    "pass-through is demanded for positions typed Any, object, a free TypeVar or a Callable form (identical object back)",
]
EXHAUSTIVE = {"quick": False, "thorough": True}
PLAN = {"quick": dict(depth2=5000, depth3=0), "thorough": dict(depth2=None, depth3=60000)}
FLOORS = {"quick": {"annotations_built": 5000, "passthrough_probes": 120, "rebuild_fingerprints": 5000, "leaf_kinds": 50, "constructors": 30, "generic_class_probes": 60, "bare_container_probes": 150, "iterator_probes": 300, "bare_plain_probes": 100},
          "thorough": {"annotations_built": 60000, "passthrough_probes": 120, "rebuild_fingerprints": 60000, "leaf_kinds": 50, "constructors": 30, "generic_class_probes": 80, "bare_container_probes": 200, "iterator_probes": 3000, "bare_plain_probes": 120}}

MOD = "vtot_ns"
SRC = '''
import typing, collections, collections.abc, dataclasses, datetime, decimal, enum, fractions, pathlib, re, uuid
T = typing.TypeVar("T")
TB = typing.TypeVar("TB", bound=int)
TC = typing.TypeVar("TC", int, str)
import typing_extensions
TE = typing_extensions.TypeVar("TE")  # a free type-variable made by the backport (carries a `__default__` marker on 3.12)
class Box(typing.Generic[T]):
    def __init__(self, item: T):
        self.item = item
    def __eq__(self, o):
        return type(o) is type(self) and o.item == self.item
@dataclasses.dataclass
class GBox(typing.Generic[T]):
    item: T
    items: typing.List[T] = dataclasses.field(default_factory=list)
class NoHints:
    def __init__(self):
        self.z = 1
    def __eq__(self, o):
        return type(o) is type(self)
class Col(enum.Enum):
    a = 1
    b = "b"
@dataclasses.dataclass
class D:
    x: int = 0
class NT(typing.NamedTuple):
    p: int = 0
class TD(typing.TypedDict, total=False):
    k: int
@dataclasses.dataclass
class CallableDC:
    x: int = 0
    def __call__(self):
        return self.x
'''
LEAVES = ["int", "str", "float", "bool", "bytes", "type(None)", "decimal.Decimal", "fractions.Fraction", "datetime.date", "datetime.datetime",
          "datetime.time", "datetime.timedelta", "uuid.UUID", "pathlib.Path", "re.Pattern", "typing.Any", "object", "list", "dict", "tuple", "set",
          "frozenset", "typing.List", "typing.Dict", "typing.Tuple", "typing.Set", "typing.Sequence", "typing.Mapping", "collections.abc.Iterable",
          "T", "TE", "TB", "TC", "typing.Callable", "typing.Callable[..., typing.Any]", "typing.Callable[[int], str]", "typing.Callable[[int], None]", "typing.Callable[[], None]", "collections.abc.Callable",
          "type", "type[int]", "typing.Type[int]", "Box", "Box[int]", "GBox", "GBox[int]", "NoHints", "Col", "D", "NT", "TD", "typing.Literal[1, 'a']", "CallableDC",
          "bytearray"]
UNRESOLVABLE = {"typing.Any", "object", "T", "TE", "typing.Callable", "typing.Callable[..., typing.Any]", "typing.Callable[[int], str]", "typing.Callable[[int], None]", "typing.Callable[[], None]", "collections.abc.Callable"}
CTORS = {
    "list": "list[{}]", "set": "set[{}]", "frozenset": "frozenset[{}]", "tuplevar": "tuple[{}, ...]", "tuplefix": "tuple[{}, int]",
    "dict": "dict[str, {}]", "Optional": "typing.Optional[{}]", "Union": "typing.Union[{}, int]", "pipe": "({}) | None", "typing.List": "typing.List[{}]",
    "typing.Sequence": "typing.Sequence[{}]", "typing.Mapping": "typing.Mapping[str, {}]", "deque": "collections.deque[{}]",
    "abc.Mapping": "collections.abc.Mapping[str, {}]", "typing.Dict": "typing.Dict[str, {}]", "typing.Tuple": "typing.Tuple[{}, ...]",
    "newtype": None, "alias": None, "Final": "typing.Final[{}]", "ClassVar": "typing.ClassVar[{}]",
    "dcfield": None, "ntfield": None, "tdfield": None, "two_variadic": None, "two_fixed": None, "list_then_bare": None, "Box": "Box[{}]",
    # one-shot / lazily consumed containers the dispatch tables name explicitly
    "typing.Iterator": "typing.Iterator[{}]", "abc.Iterator": "collections.abc.Iterator[{}]", "typing.Iterable": "typing.Iterable[{}]",
    "abc.Iterable": "collections.abc.Iterable[{}]",
    "two_parents": "tuple[list[{0}], typing.Sequence[{0}]]", "dict_two_parents": "dict[str, tuple[list[{0}], collections.deque[{0}]]]",
}
PROBES = [1, "1", "[1]", None, {"a": 1}, [1, 2], "x", b"1", 2.5, {"x": 3}, ["a"], True]
_N = [0]


def namespace():
    if MOD not in sys.modules:
        m = types.ModuleType(MOD)
        sys.modules[MOD] = m
        exec(compile(SRC, f"/verif/out/generated/{MOD}.py", "exec", dont_inherit=True), m.__dict__)
    return sys.modules[MOD]


def apply(ctor, inner_src, ns):
    """Returns (src, object) or None if typing itself rejects the construction."""
    _N[0] += 1
    n = _N[0]
    if ctor in ("newtype", "alias") and inner_src.startswith(("typing.Final[", "typing.ClassVar[")):
        return None  # a qualifier is not a type: typing tolerates it at runtime, but it is not a valid annotation
    try:
        if ctor == "newtype":
            name = f"N{n}"
            obj = typing.NewType(name, eval(inner_src, ns.__dict__))
            setattr(ns, name, obj)
            return name, obj
        if ctor == "alias":
            name = f"A{n}"
            obj = typing.TypeAliasType(name, eval(inner_src, ns.__dict__))
            setattr(ns, name, obj)
            return name, obj
        if ctor in ("dcfield", "ntfield", "tdfield", "two_variadic", "two_fixed", "list_then_bare"):
            name = f"C{n}"
            if ctor == "dcfield":
                src = f"@dataclasses.dataclass\nclass {name}:\n    f: {inner_src}\n"
            elif ctor == "ntfield":
                src = f"class {name}(typing.NamedTuple):\n    f: {inner_src}\n"
            elif ctor == "tdfield":
                src = f"class {name}(typing.TypedDict):\n    f: {inner_src}\n"
            elif ctor == "list_then_bare":
                # the member type inside a container first, then on its own: two parents holding the same (possibly opaque) member
                src = f"@dataclasses.dataclass\nclass {name}:\n    items: list[{inner_src}]\n    extra: {inner_src}\n    more: tuple[{inner_src}, ...] = ()\n"
            elif ctor == "two_fixed":
                # one fixed tuple type used several times in a class (directly and inside a list)
                src = (f"@dataclasses.dataclass\nclass {name}:\n    a: tuple[{inner_src}, {inner_src}]\n    b: list[tuple[{inner_src}, {inner_src}]]\n"
                       f"    c: tuple[{inner_src}, {inner_src}]\n")
            else:
                src = f"@dataclasses.dataclass\nclass {name}:\n    a: tuple[{inner_src}, ...]\n    b: tuple[int, ...]\n    c: tuple[{inner_src}, ...]\n"
            exec(compile(src, f"/verif/out/generated/{MOD}_{name}.py", "exec", dont_inherit=True), ns.__dict__)
            obj = getattr(ns, name)
            obj.__module__ = MOD
            typing.get_type_hints(obj)
            return name, obj
        src = CTORS[ctor].format(inner_src)
        return src, eval(src, ns.__dict__)
    except Exception:  # noqa: BLE001
        return None


def fingerprint(um, mm):
    out = []
    for x in PROBES:
        for fn in (um, mm):
            try:
                with quiet():
                    r = fn(x)
                out.append(("ok", canon(r, strict=True)))
            except (RecursionError, MemoryError):
                out.append(("skip",))
            except Exception as e:  # noqa: BLE001
                out.append(("raised", type(e).__name__))
    return out


BARE_CONTAINERS = {"list": list, "typing.List": list, "typing.Sequence": list, "collections.abc.Iterable": list, "tuple": tuple, "typing.Tuple": tuple,
                   "set": set, "typing.Set": set, "frozenset": frozenset, "dict": dict, "typing.Dict": dict, "typing.Mapping": dict}


def passthrough_probe(sh, ctor, leaf, src, T):
    if leaf not in UNRESOLVABLE and leaf not in BARE_CONTAINERS:
        return
    marker = object()
    if leaf in BARE_CONTAINERS:
        # an unparameterised container passes its CONTENTS through: the marker sits inside it
        cls = BARE_CONTAINERS[leaf]
        sentinel = {"k": marker} if cls is dict else cls([marker])
        if ctor in ("set", "frozenset") or (ctor in ("dict", "typing.Dict", "typing.Mapping", "abc.Mapping") and False):
            return
        sh.count("bare_container_probes")
    else:
        sentinel = marker
    shape = {"list": [sentinel], "typing.List": [sentinel], "typing.Sequence": [sentinel], "tuplevar": (sentinel,), "typing.Tuple": (sentinel,),
             "tuplefix": (sentinel, 1), "dict": {"k": sentinel}, "typing.Dict": {"k": sentinel}, "typing.Mapping": {"k": sentinel},
             "abc.Mapping": {"k": sentinel}, "Optional": sentinel, "pipe": sentinel, "deque": [sentinel], "dcfield": {"f": sentinel},
             "ntfield": {"f": sentinel}, "tdfield": {"f": sentinel}, "newtype": sentinel, "alias": sentinel, "Final": sentinel, "ClassVar": sentinel,
             "<root>": sentinel, "two_parents": ([sentinel], [sentinel]), "dict_two_parents": {"k": ([sentinel], [sentinel])},
             "list_then_bare": {"items": [sentinel], "extra": sentinel, "more": (sentinel,)}, "two_fixed": {"a": (sentinel, sentinel), "b": [(sentinel, sentinel)], "c": (sentinel, sentinel)}}.get(ctor)
    if shape is None:
        return
    sh.count("passthrough_probes")
    for direction, fn in (("unmarshal", lambda x: typelib.unmarshal(T, x)), ("marshal", lambda x: typelib.marshal(x, t=T))):
        if direction == "marshal" and ctor in ("dcfield", "ntfield"):
            continue
        arg = shape
        if direction == "marshal" and ctor in ("two_fixed", "list_then_bare"):
            arg = T(**shape)  # an instance: the routines are called for the first time on it
        try:
            with quiet():
                r = fn(arg)
        except Exception as e:  # noqa: BLE001
            sh.violation("passthrough-raised", annotation=src, direction=direction, exc=type(e).__name__, detail=str(e)[:200])
            continue

        def find(o, depth=0):
            if o is marker:
                return True
            if depth > 5:
                return False
            if isinstance(o, dict):
                return any(find(v, depth + 1) for v in o.values())
            if isinstance(o, (list, tuple, set, frozenset)) or type(o).__name__ == "deque":
                return any(find(v, depth + 1) for v in o)
            if hasattr(o, "f"):
                return find(o.f, depth + 1)
            if dataclasses.is_dataclass(o) and not isinstance(o, type):
                return any(find(getattr(o, f_.name), depth + 1) for f_ in dataclasses.fields(o))
            return False

        if not find(r):
            sh.violation("not-passthrough", annotation=src, direction=direction, got=short(r, 200))


def bare_plain_probe(sh, ctor, leaf, src, T):
    """Unparameterised containers over JSON-plain contents: nothing in them needs resolving, so the marshalled form is plain JSON data
    (list / dict at the container's position) and the codec round trip gives the container back."""
    if leaf not in BARE_CONTAINERS:
        return
    from vlib.oracles import json_plain

    cls = BARE_CONTAINERS[leaf]
    v = {"k": 1, "j": "a"} if cls is dict else cls([1, "a"])
    shapes = {"<root>": v, "list": [v], "typing.List": [v], "dict": {"k": v}, "typing.Dict": {"k": v}, "tuplefix": (v, 1), "Optional": v, "pipe": v,
              "tdfield": {"f": v}, "newtype": v, "alias": v, "Final": v}
    if ctor not in shapes:
        return
    x = shapes[ctor]
    sh.count("bare_plain_probes")
    try:
        with quiet():
            m = typelib.marshal(x, t=T)
    except Exception as e:  # noqa: BLE001
        sh.violation("bare-container-routine-raised", annotation=src, direction="marshal", exc=type(e).__name__, detail=str(e)[:200])
        return
    ok, why = json_plain(m)
    if not ok:
        sh.violation("bare-container-not-plain", annotation=src, value=short(x, 120), output=short(m, 160), where=why)
        return
    try:
        with quiet():
            cdc = typelib.codec(T)
            back = cdc.decode(cdc.encode(x))
    except Exception as e:  # noqa: BLE001
        sh.violation("bare-container-routine-raised", annotation=src, direction="codec round trip", exc=type(e).__name__, detail=str(e)[:200])
        return
    if canon(back, strict=True) != canon(x, strict=True):
        sh.violation("bare-container-not-restored", annotation=src, value=short(x, 120), got=short(back, 160))


ITER_CTORS = ("typing.Iterator", "abc.Iterator", "typing.Iterable", "abc.Iterable")


def iterator_probe(sh, outer, inner_src, src, T, ns):
    """Working routines for Iterator[X] / Iterable[X]: what the routine yields is what the routine for list[X] returns (same
    conversions, same rejections - judged after draining the result), and an iterator of values marshals like the list of them."""
    if outer not in ITER_CTORS or inner_src is None:
        return
    try:
        L = eval(f"list[{inner_src}]", ns.__dict__)
        with quiet():
            lu, lm = typelib.unmarshaller(L), typelib.marshaller(L)
    except Exception:  # noqa: BLE001
        return
    sh.count("iterator_probes")

    def drained(fn, x):
        try:
            with quiet():
                r = fn(x)
                return ("ok", canon([*r], strict=True) if not isinstance(r, (str, bytes, dict)) and hasattr(r, "__iter__") else canon(r, strict=True))
        except (RecursionError, MemoryError):
            return ("skip", None)
        except Exception as e:  # noqa: BLE001
            return ("raised", type(e).__name__)

    for x in PROBES + [["1", "2"], (1, 2), [], [[1]], [None], [{"x": 3}], ["a", "b"]]:
        a, b = drained(lambda v: typelib.unmarshal(T, v), x), drained(lu, x)
        if "skip" in (a[0], b[0]):
            continue
        sh.count("iterator_outcomes_compared")
        if a != b:
            sh.violation("iterator-routine-differs-from-list", annotation=src, direction="unmarshal", input=short(x, 80), list_routine=short(b, 160), got=short(a, 160))
            return
    for v in ([1, 2], ["a"], [], [[1]], [None]):
        a, b = drained(lambda vv: typelib.marshal(iter(vv), t=T), v), drained(lm, v)
        if "skip" in (a[0], b[0]):
            continue
        sh.count("iterator_outcomes_compared")
        if a != b:
            sh.violation("iterator-routine-differs-from-list", annotation=src, direction="marshal", input=short(v, 80), list_routine=short(b, 160), got=short(a, 160))
            return


def generic_probe(sh, ctor, leaf, src, T, ns):
    """User generic classes, bare and parameterised, must yield WORKING routines: the field of Box / Box[int] is carried through
    (pass-through for the free type-variable, converted for Box[int]) in both directions at every constructor position."""
    if leaf not in ("Box", "Box[int]", "GBox", "GBox[int]"):
        return
    wire_item, item = ("5", 5) if leaf.endswith("[int]") else ("keep-me", "keep-me")
    cls = ns.GBox if leaf.startswith("GBox") else ns.Box
    w, v = {"item": wire_item}, cls(item)
    if cls is ns.GBox:
        w["items"] = [wire_item]
        v.items = [item]
    shapes = {"list": ([w], [v]), "typing.List": ([w], [v]), "typing.Sequence": ([w], [v]), "tuplevar": ((w,), (v,)), "typing.Tuple": ((w,), (v,)),
              "tuplefix": ((w, 1), (v, 1)), "dict": ({"k": w}, {"k": v}), "typing.Dict": ({"k": w}, {"k": v}), "typing.Mapping": ({"k": w}, {"k": v}),
              "abc.Mapping": ({"k": w}, {"k": v}), "Optional": (w, v), "pipe": (w, v), "deque": ([w], [v]), "dcfield": ({"f": w}, None),
              "ntfield": ({"f": w}, None), "tdfield": ({"f": w}, {"f": v}), "newtype": (w, v), "alias": (w, v), "Final": (w, v), "<root>": (w, v)}
    if ctor not in shapes:
        return
    win, vin = shapes[ctor]
    sh.count("generic_class_probes")

    def holds(o, want, depth=0):
        if isinstance(o, ns.Box):
            return type(o.item) is type(want) and o.item == want
        if isinstance(o, ns.GBox):
            return type(o.item) is type(want) and o.item == want and [(type(e), e) for e in o.items] == [(type(want), want)]
        if isinstance(o, dict) and "item" in o and set(o) <= {"item", "items"}:
            return type(o["item"]) is type(want) and o["item"] == want and ("items" not in o or [(type(e), e) for e in o["items"]] == [(type(want), want)])
        if depth > 4:
            return False
        if isinstance(o, dict):
            return any(holds(x, want, depth + 1) for x in o.values())
        if isinstance(o, (list, tuple)) or type(o).__name__ == "deque":
            return any(holds(x, want, depth + 1) for x in o)
        if hasattr(o, "f"):
            return holds(o.f, want, depth + 1)
        return False

    for direction, fn, x in (("unmarshal", lambda x: typelib.unmarshal(T, x), win), ("marshal", lambda x: typelib.marshal(x, t=T), vin)):
        if x is None:
            continue
        try:
            with quiet():
                r = fn(x)
        except Exception as e:  # noqa: BLE001
            sh.violation("generic-class-routine-raised", annotation=src, direction=direction, exc=type(e).__name__, detail=str(e)[:200])
            continue
        if not holds(r, item):
            sh.violation("generic-class-field-lost", annotation=src, direction=direction, input=short(x, 120), got=short(r, 200))
    # the other parametrisations of the same class, built AFTER this one, still follow their own arguments
    sentinel = object()
    for sib_src, sib, given, want in ((f"{cls.__name__}[str]", cls[str], 5, "5"), (cls.__name__, cls, sentinel, sentinel), (f"{cls.__name__}[int]", cls[int], "7", 7)):
        sh.count("sibling_parametrisations_checked")
        try:
            with quiet():
                r = typelib.unmarshal(sib, {"item": given})
            got = getattr(r, "item", "<no item>")
            if not (got is want or (type(got) is type(want) and got == want)):
                sh.violation("generic-parametrisations-interfere", annotation=src, sibling=sib_src, input=short(given, 60), got=short(got, 80), expected=short(want, 80))
        except Exception as e:  # noqa: BLE001
            sh.violation("generic-parametrisations-interfere", annotation=src, sibling=sib_src, input=short(given, 60), got=f"raised {type(e).__name__}: {e}"[:160])


WARMERS = None


def warm():
    """The first build of T happens under caches warmed by unrelated annotations (the rebuild after clearing is cold)."""
    global WARMERS
    if WARMERS is None:
        ns = namespace()
        WARMERS = [int, str, list[int], dict[str, int], tuple[int, str], typing.Optional[int], ns.D, set[str], typing.List[str], ns.NT]
    for w in WARMERS:
        with quiet():
            typelib.unmarshaller(w)
            typelib.marshaller(w)


def check(sh, src, T, steps, leaf=None, ctor=None, outer=None, inner_src=None):
    sh.eval(src)
    warm()
    steps.n = 0
    steps.on = True
    built = {}
    try:
        for name, fn in (("unmarshaller", typelib.unmarshaller), ("marshaller", typelib.marshaller), ("codec", typelib.codec)):
            try:
                with quiet():
                    built[name] = fn(T)
            except StepBudgetExceeded:
                sh.violation("build-step-budget", annotation=src, which=name)
            except RecursionError:
                sh.violation("build-unbounded-recursion", annotation=src, which=name)
            except Exception as e:  # noqa: BLE001
                sh.violation("build-raised", annotation=src, which=name, exc=type(e).__name__, detail=str(e)[:200], leaf=leaf, ctor=ctor)
    finally:
        steps.on = False
    if len(built) < 3:
        return
    sh.count("annotations_built")
    passthrough_probe(sh, ctor, leaf, src, T)
    generic_probe(sh, ctor, leaf, src, T, namespace())
    iterator_probe(sh, outer, inner_src, src, T, namespace())
    bare_plain_probe(sh, ctor, leaf, src, T)
    fp1 = fingerprint(built["unmarshaller"], built["marshaller"])
    served_permutation = permutation_served(T)
    try:
        with quiet():
            fp2 = fingerprint(typelib.unmarshaller(T), typelib.marshaller(T))
            clear_typelib_caches()
            fp3 = fingerprint(typelib.unmarshaller(T), typelib.marshaller(T))
    except Exception as e:  # noqa: BLE001
        sh.violation("rebuild-raised", annotation=src, exc=type(e).__name__, detail=str(e)[:200])
        return
    sh.count("rebuild_fingerprints")
    if fp1 != fp2:
        sh.violation("second-build-differs", annotation=src, detail=short([(a, b) for a, b in zip(fp1, fp2) if a != b][:2], 300))
    if fp1 != fp3:
        sh.violation("build-after-cache-clear-differs", annotation=src, detail=short([(a, b) for a, b in zip(fp1, fp3) if a != b][:2], 300),
                     served_permutation=served_permutation)


def permutation_served(T, depth=0):
    """Mechanism fact for finding D15: does a union inside T currently get a routine whose member order is that of another,
    equal-but-reordered union built earlier in this process (e.g. the Union[int, str] a constrained TypeVar stands for)?"""
    if depth > 6:
        return False
    o = typing.get_origin(T)
    if o in (typing.Union, types.UnionType):
        declared = [a for a in typing.get_args(T) if a is not type(None)]
        try:
            with quiet():
                stack = [a for a in getattr(typelib.unmarshaller(T), "stack", ()) if a is not type(None)]
            if stack and stack != declared and len(stack) == len(declared) and all(any(a == b for b in declared) for a in stack):
                return True
        except Exception:  # noqa: BLE001
            pass
    return any(permutation_served(a, depth + 1) for a in typing.get_args(T) if not isinstance(a, (list, tuple)))


def canaries(sh):
    ns = namespace()
    sh.canary("typing-rejects-nested-final", apply("Optional", "typing.Final[int]", ns) is None)
    sh.canary("fingerprint-distinguishes", fingerprint(typelib.unmarshaller(int), typelib.marshaller(int)) != fingerprint(typelib.unmarshaller(str), typelib.marshaller(str)))


def run_shard(sh):
    plan = PLAN[sh.tier]
    ns = namespace()
    steps = Steps()
    steps.start()
    items = []  # (depth, ctor path, leaf)
    for leaf in LEAVES:
        items.append((0, (), leaf))
    for c in CTORS:
        for leaf in LEAVES:
            items.append((1, (c,), leaf))
    d2 = [(2, (c1, c2), leaf) for c1 in CTORS for c2 in CTORS for leaf in LEAVES]
    import random

    rnd = random.Random(f"C15/{sh.seed}")
    if plan["depth2"] is not None:
        d2 = rnd.sample(d2, plan["depth2"])
    items += d2
    for _ in range(plan["depth3"]):
        items.append((3, tuple(rnd.choice(list(CTORS)) for _ in range(3)), rnd.choice(LEAVES)))
    mine = [it for idx, it in enumerate(items) if idx % sh.nshards == sh.shard]

    def case(i):
        depth, path, leaf = mine[i]
        sh.see("leaf_kinds", leaf)
        src, obj = leaf, eval(leaf, ns.__dict__)
        inner_src = None
        for c in reversed(path):
            sh.see("constructors", c)
            inner_src = src
            r = apply(c, src, ns)
            if r is None:
                sh.count("rejected_by_typing")
                return
            src, obj = r
        if i % 16 == 0:
            clear_typelib_caches(also_typing=False)
        check(sh, src if not path else f"{'>'.join(path)}({leaf}) = {src}", obj, steps, leaf=leaf,
              ctor=(path[0] if len(path) == 1 else ("<root>" if not path else "<deep>")), outer=(path[0] if path else None), inner_src=inner_src)
        if i % 400 == 0:
            sh.sample({"annotation": src})

    sh.run_cases(len(mine), case)
    steps.stop()
