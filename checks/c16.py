"""C16 - TypeContext lookups see through aliases and references (shadow reference model)."""
from __future__ import annotations

import itertools
import sys
import types
import typing

from typelib import ctx

from vlib.workload import case_rng, per_shard

ID = "C16"
LEVEL = "exploration"
RULE = ("operation sequences over {insert fresh key, lookup ([] and get(default) alternating)} with keys from the closed family "
        "3 base classes x {itself, NewType, TypeAliasType, string-valued alias, Final[...], ForwardRef to it, ForwardRef with the same name in another module, ForwardRef with the same name and no module, NewType over NewType, NewType over alias, alias of NewType}: all sequences up to "
        "the tier's length over one base (exhaustive, for the one-layer family and for the layered wrappers next to what they peel through), random sequences up to length 40 over all 33 keys; after every sequence a "
        "full probe of all keys ([] / get / in for stored keys) is compared with the write-once reference model; one evaluation = "
        "one sequence; distinct = distinct sequence; non-trivial = contains at least one insert and one lookup")
ASSUMPTIONS = [
    "the model is the statement read literally: value under the key itself, else under its peeled form (NewType/alias value/string alias -> ForwardRef to its body in the alias's module/Final), else under the forward reference naming the looked-up key; ForwardRef keys never fall through",
    "'in' is only compared for stored keys (memoised alias keys are deliberately not observed)",
    "a module-less ForwardRef is a key of its own; whether a class is found under a stored module-less reference of its name is not judged (either answer accepted), absent reference keys are always absent",
]
EXHAUSTIVE = {"quick": True, "thorough": True}
PLAN = {"quick": dict(maxlen=4, random=60000), "thorough": dict(maxlen=6, random=600000)}
FLOORS = {"quick": {"sequences": 90000, "ops_compared": 1500000, "hits_via_peel": 50000, "hits_via_forwardref": 10000, "keyerrors": 300000},
          "thorough": {"sequences": 3000000, "ops_compared": 40000000, "hits_via_peel": 1000000, "hits_via_forwardref": 300000, "keyerrors": 5000000}}

SRC = """
import typing
class B0: pass
class B1: pass
class B2: pass
N0 = typing.NewType("N0", B0); N1 = typing.NewType("N1", B1); N2 = typing.NewType("N2", B2)
A0 = typing.TypeAliasType("A0", B0); A1 = typing.TypeAliasType("A1", B1); A2 = typing.TypeAliasType("A2", B2)
S0 = typing.TypeAliasType("S0", "B0"); S1 = typing.TypeAliasType("S1", "B1"); S2 = typing.TypeAliasType("S2", "B2")
F0 = typing.Final[B0]; F1 = typing.Final[B1]; F2 = typing.Final[B2]
R0 = typing.ForwardRef("B0", module=__name__); R1 = typing.ForwardRef("B1", module=__name__); R2 = typing.ForwardRef("B2", module=__name__)
X0 = typing.ForwardRef("B0", module="some_other_module"); X1 = typing.ForwardRef("B1", module="some_other_module"); X2 = typing.ForwardRef("B2", module="some_other_module")
U0 = typing.ForwardRef("B0"); U1 = typing.ForwardRef("B1"); U2 = typing.ForwardRef("B2")
# several layers: the unwrapped form is the FULLY peeled one, whatever is stored under a layer in between
NN0 = typing.NewType("NN0", N0); NN1 = typing.NewType("NN1", N1); NN2 = typing.NewType("NN2", N2)
NA0 = typing.NewType("NA0", A0); NA1 = typing.NewType("NA1", A1); NA2 = typing.NewType("NA2", A2)
AN0 = typing.TypeAliasType("AN0", N0); AN1 = typing.TypeAliasType("AN1", N1); AN2 = typing.TypeAliasType("AN2", N2)
"""
MODNAME = "vctx_family"
_MISSING = object()


def family():
    if MODNAME not in sys.modules:
        mod = types.ModuleType(MODNAME)
        sys.modules[MODNAME] = mod
        exec(compile(SRC, f"/verif/out/generated/{MODNAME}.py", "exec", dont_inherit=True), mod.__dict__)
    mod = sys.modules[MODNAME]
    keys = {}
    for b in range(3):
        B = getattr(mod, f"B{b}")
        fr = getattr(mod, f"R{b}")
        keys[b] = {
            "B": (B, None, fr),                       # (key, peeled key or None, forward reference naming the key or None)
            "N": (getattr(mod, f"N{b}"), B, None),
            "A": (getattr(mod, f"A{b}"), B, None),
            "S": (getattr(mod, f"S{b}"), fr, None),    # string alias peels to the ForwardRef to its body
            "F": (getattr(mod, f"F{b}"), B, None),
            "R": (fr, None, None),                     # a ForwardRef key never falls through
            "X": (getattr(mod, f"X{b}"), None, None),  # same name, ANOTHER module: names nothing in this family
            "NN": (getattr(mod, f"NN{b}"), B, None),   # NewType over NewType: peels to the class, not to the NewType in between
            "NA": (getattr(mod, f"NA{b}"), B, None),   # NewType over alias
            "AN": (getattr(mod, f"AN{b}"), B, None),   # alias of NewType
            "U": (getattr(mod, f"U{b}"), None, None),  # same name, NO module: a key of its own; whether it "names" B is left open (see AMBIGUOUS)
        }
    return keys


class Model:
    """Write-once dict + the statement's lookup order."""

    def __init__(self):
        self.d = {}

    def insert(self, kid, value):
        self.d[kid] = value

    def lookup(self, kid, spec):
        key, peeled_id, fr_id = spec
        if kid in self.d:
            return "self", self.d[kid]
        if peeled_id is not None and peeled_id in self.d:
            return "peel", self.d[peeled_id]
        if fr_id is not None and fr_id in self.d:
            return "forwardref", self.d[fr_id]
        return "miss", _MISSING


def key_ids(keys):
    """Flat table: kid -> (key object, peeled kid, forwardref kid)."""
    table = {}
    for b, fam in keys.items():
        ids = {id(v[0]): f"{k}{b}" for k, v in fam.items()}
        for k, (key, peeled, fr) in fam.items():
            table[f"{k}{b}"] = (key, ids.get(id(peeled)) if peeled is not None else None, ids.get(id(fr)) if fr is not None else None)
    return table


# A module-less reference does not say whose "B0" it means. The statement does not settle whether the class is found under it, so a
# class lookup that the model misses while the module-less reference is stored is not compared (counted, never judged). Reference
# KEYS (R, X, U) stay strict: an absent reference key is absent, whatever other references are stored.
AMBIGUOUS = {f"B{b}": f"U{b}" for b in range(3)}

VALUES = [0, None, "", 1, "v", (), 2.5, False, "w", 7, [], {}]


def run_sequence(sh, table, seq, probe_keys):
    """seq: list of ('i'|'l', kid). Returns False on violation."""
    real = ctx.TypeContext()
    model = Model()
    nval = 0
    trace = []
    ok = True

    def compare_lookup(kid, use_get):
        nonlocal ok
        key, _, _ = table[kid]
        how, want = model.lookup(kid, table[kid])
        if how == "miss" and AMBIGUOUS.get(kid) in model.d:
            sh.count("unjudged_moduleless_reference")
            return
        sentinel = object()
        if use_get:
            try:
                got = real.get(key, sentinel)
            except Exception as e:  # noqa: BLE001
                got = ("raised", type(e).__name__)
            exp = sentinel if want is _MISSING else want
            good = got is exp or (got == exp and type(got) is type(exp) and exp is not sentinel)
        else:
            try:
                got = real[key]
                good = want is not _MISSING and (got is want or (got == want and type(got) is type(want)))
            except KeyError:
                got = "KeyError"
                good = want is _MISSING
            except Exception as e:  # noqa: BLE001
                got, good = ("raised", type(e).__name__), False
        sh.count("ops_compared")
        if how == "peel":
            sh.count("hits_via_peel")
        elif how == "forwardref":
            sh.count("hits_via_forwardref")
        elif how == "miss":
            sh.count("keyerrors")
        trace.append((("get" if use_get else "[]"), kid, how))
        if not good and ok:
            ok = False
            sh.violation("lookup-differs", op=("get" if use_get else "[]"), key=kid, expected=("<absent>" if want is _MISSING else repr(want)),
                         got=repr(got) if got is not sentinel else "<default>", via=how, history=str(trace[-14:]))

    for pos, (op, kid) in enumerate(seq):
        if op == "i":
            if kid in model.d:
                continue  # only fresh keys are inserted
            val = VALUES[nval % len(VALUES)]
            nval += 1
            real[table[kid][0]] = val
            model.insert(kid, val)
            trace.append(("insert", kid, repr(val)))
        else:
            compare_lookup(kid, use_get=(pos % 2 == 1))
    # full probe
    for kid in probe_keys:
        compare_lookup(kid, False)
        compare_lookup(kid, True)
        if kid in model.d:
            sh.count("ops_compared")
            if table[kid][0] not in real and ok:
                ok = False
                sh.violation("stored-key-not-in", key=kid, history=str(trace[-14:]))
    return ok


def canaries(sh):
    keys = family()
    table = key_ids(keys)

    class Fake:
        def __init__(self):
            self.v = 0

        def count(self, *a, **k):
            pass

        def violation(self, *a, **k):
            self.v += 1

    # a broken "library": monkeypatch-free canary - feed the comparator a context whose get() swallows falsy values
    f = Fake()
    orig_get = ctx.TypeContext.get
    try:
        ctx.TypeContext.get = lambda self, key, default=None: (dict.get(self, key) or default)
        run_sequence(f, table, [("i", "B0"), ("l", "B0")], ["B0"])
    finally:
        ctx.TypeContext.get = orig_get
    sh.canary("falsy-swallowing-get-detected", f.v > 0)
    f = Fake()
    run_sequence(f, table, [("i", "B0"), ("l", "N0"), ("i", "R1"), ("l", "B1"), ("l", "S1")], list(table))
    sh.canary("real-context-agrees-on-basic-sequence", f.v == 0)


def run_shard(sh):
    plan = PLAN[sh.tier]
    keys = family()
    table = key_ids(keys)
    fam0 = [k for k in table if k.endswith("0")]
    # two alphabets, each enumerated exhaustively: the one-layer family, and the layered wrappers next to what they peel through
    core = [k for k in fam0 if k[:-1] in ("B", "N", "A", "S", "F", "R", "X", "U")]
    layers = [k for k in fam0 if k[:-1] in ("B", "N", "A", "NN", "NA", "AN")]

    def all_sequences():
        idx = 0
        for alphabet in (core, layers):
            symbols = [(op, kid) for kid in alphabet for op in ("i", "l")]
            for n in range(1, plan["maxlen"] + 1):
                for seq in itertools.product(symbols, repeat=n):
                    idx += 1
                    if idx % sh.nshards == sh.shard:
                        yield seq

    if sh.only is None:
        for seq in all_sequences():
            sh.count("sequences")
            nontrivial = any(o == "i" for o, _ in seq) and any(o == "l" for o, _ in seq)
            sh.eval(seq if nontrivial else None)
            run_sequence(sh, table, seq, fam0)
            if sh.evaluations % 100000 == 1:
                sh.sample({"sequence": [f"{o}:{k}" for o, k in seq]})
    nrand = per_shard(plan["random"], sh.nshards, sh.shard)
    allk = list(table)

    def case(i):
        rng = case_rng(sh, i)
        seq = [(rng.choice("iil"), rng.choice(allk)) for _ in range(rng.randrange(1, 41))]
        sh.count("sequences")
        sh.count("random_sequences")
        sh.eval(tuple(seq))
        run_sequence(sh, table, seq, allk)

    sh.run_cases(nrand, case)
