"""C03 - unmarshal(T, x) raises or returns a value that structurally conforms to T."""
from __future__ import annotations

import types

import typelib

from vlib import hostile
from vlib import universe as U
from vlib.oracles import canon, conforms, describe, short
from vlib.workload import case_rng, clear_typelib_caches, make_program, per_shard, quiet

ID = "C03"
LEVEL = "exploration"
RULE = ("types from grammar U x inputs {valid values, their wire forms, systematic corruptions of the wire forms (drop/"
        "rename/retype field, add/remove/duplicate element, wrap/unwrap nesting, stringify), hostile pool X}; one "
        "evaluation = one unmarshal call whose outcome (raise / return) was judged; distinct = (type source, "
        "canonical input); non-trivial = the call returned (a raise is an acceptable outcome and is counted apart)")
ASSUMPTIONS = [
    "conformance is judged by the harness's own structural checker over its own spec tree (never asks typelib what a type is); Python isinstance semantics at scalar positions (bool conforms to int, datetime to date)",
    "TypedDict closedness and dropped surplus fixed-tuple members are not demanded; RecursionError/MemoryError are neither results nor violations",
]
PLAN = {"quick": dict(programs=4000, depth=3, pool=14, values=2), "thorough": dict(programs=30000, depth=4, pool=30, values=4)}
FLOORS = {"quick": {"returned": 150000, "raised": 100000, "corruptions": 150000, "shapes": 4000, "ill_typed_instances": 4000, "bytes_like_targets_checked": 2000, "oneshot_forms_checked": 8000},
          "thorough": {"returned": 600000, "raised": 400000, "corruptions": 400000, "shapes": 20000, "ill_typed_instances": 30000, "bytes_like_targets_checked": 15000, "oneshot_forms_checked": 100000}}


def judge(sh, spec, x, tsrc, origin, prog=None):
    sh.count("calls")
    try:
        with quiet():
            r = typelib.unmarshal(spec.t, x)
    except (RecursionError, MemoryError):
        sh.count("resource_skipped")
        return None
    except Exception:  # noqa: BLE001 - raising is an acceptable outcome
        sh.count("raised")
        return None
    sh.count("returned")
    sh.count("returned_from_" + origin)
    try:
        ok, path = conforms(spec, r)
    except RecursionError:
        sh.count("resource_skipped")
        return r
    if not ok:
        sh.violation("nonconforming", type_src=tsrc, input=short(x, 400), result=short(r, 400), path=path, origin=origin,
                     input_class=type(x).__name__, module_src=(prog.source[-2500:] if prog else ""))
    return r


def canaries(sh):
    import random

    rng = random.Random(2)
    prog, gen, _ = make_program(rng, U.Opts(depth=1), nroots=0)
    s = prog.spec("fixed", "tuple[int, str]", [gen.scalar("int"), gen.scalar("str")], ctor="tuple")
    lit = prog.spec("literal", "typing.Literal[1, 2]", members=[1, 2])
    prog.build()
    sh.canary("short-tuple", not conforms(s, (1,))[0])
    sh.canary("wrong-member-class", not conforms(s, (1, 2))[0])
    sh.canary("literal-bool-for-int", not conforms(lit, True)[0])
    sh.canary("accepts-valid", conforms(s, (1, "a"))[0])
    prog.drop()


def oneshot_forms(sh, spec, w, tsrc, rng, prog):
    """The wire form offered as a one-shot iterable (iterator, generator, zip, items view): the result - if there is one - is never
    a truncated one, i.e. it equals what the materialised form gives."""
    if not isinstance(w, (list, dict)) or not w:
        return
    try:
        with quiet():
            ref = typelib.unmarshal(spec.t, w)
    except Exception:  # noqa: BLE001
        return
    if isinstance(w, dict):
        forms = [("items-iterator", lambda: iter(list(w.items()))), ("items-view", lambda: w.items()), ("zip", lambda: zip(list(w), list(w.values()))),
                 ("generator-of-pairs", lambda: ((k, v) for k, v in w.items()))]
    else:
        forms = [("iterator", lambda: iter(list(w))), ("generator", lambda: (e for e in w)), ("map", lambda: map(lambda e: e, w))]
    name, make = rng.choice(forms)
    sh.count("oneshot_forms_checked")
    try:
        with quiet():
            r = typelib.unmarshal(spec.t, make())
    except Exception:  # noqa: BLE001
        sh.count("raised")
        return
    sh.count("returned")
    try:
        same_ = canon(r, strict=True) == canon(ref, strict=True)
    except Exception:  # noqa: BLE001
        return
    if not same_:
        if any(s_.kind == "union" for s_ in spec.walk()):
            # with a union on the way the list-of-pairs and the mapping may legitimately go to different members; only a result that
            # is the SAME container class but shorter is a truncation there
            if not (type(r) is type(ref) and hasattr(r, "__len__") and len(r) < len(ref)):
                sh.count("oneshot_union_member_differs")
                return
        sh.violation("truncated", type_src=tsrc, form=name, input=short(w, 300), result=short(r, 300), from_materialised=short(ref, 300),
                     module_src=prog.source[-2500:])


def plant(w, inst, depth=0):
    """Replace the first dict found inside the wire form w (a nested structured member) by inst; None if there is none."""
    if depth > 6:
        return None
    if isinstance(w, list):
        for k, e in enumerate(w):
            if isinstance(e, dict):
                return w[:k] + [inst] + w[k + 1:]
            r = plant(e, inst, depth + 1)
            if r is not None:
                return w[:k] + [r] + w[k + 1:]
    elif isinstance(w, dict):
        for k, e in w.items():
            if isinstance(e, dict):
                return {**w, k: inst}
            r = plant(e, inst, depth + 1)
            if r is not None:
                return {**w, k: r}
    return None


def run_case(sh, i, plan):
    rng = case_rng(sh, i)
    clear_typelib_caches(also_typing=True)
    opts = U.Opts(depth=rng.choice([1, 2, 2, 3, plan["depth"]]), none_members=True)
    prog, gen, roots = make_program(rng, opts, nroots=3)
    vg = U.ValueGen(rng)
    try:
        wires = []
        for spec in roots:
            for _ in range(plan["values"]):
                try:
                    with quiet():
                        wires.append(typelib.marshal(vg.value(spec), t=spec.t))
                except Exception:  # noqa: BLE001
                    pass
        for spec in roots:
            tsrc = spec.src
            sh.see("shapes", U.skeleton(spec))
            inputs = []
            for _ in range(plan["values"]):
                v = vg.value(spec)
                inputs.append(("valid", v))
                try:
                    with quiet():
                        w = typelib.marshal(v, t=spec.t)
                except Exception:  # noqa: BLE001
                    continue
                inputs.append(("wire", w))
                oneshot_forms(sh, spec, w, tsrc, rng, prog)
                cs = hostile.corruptions(w, rng, limit=16, other_wires=wires)
                sh.count("corruptions", len(cs))
                inputs.extend(("corrupt", c) for c in cs)
            inputs.extend(("pool", hostile.pool_item(rng)) for _ in range(plan["pool"]))
            # instances of the structured classes of this type (the root itself or a nested member) whose fields hold values of
            # the wrong type: the constructor of a dataclass / NamedTuple / plain class does not validate, unmarshal has to
            for st in [s_ for s_ in spec.walk() if s_.kind == "struct" and not s_.info["flavour"].startswith("typeddict") and not isinstance(s_.t, str)][:3]:
                for _ in range(2):
                    kw = {}
                    for fname, fspec, _d in st.info["fields"]:
                        bad = hostile.pool_item(rng)
                        kw[fname] = None if hasattr(bad, "__next__") else bad
                    try:
                        inst = st.t(**kw)
                    except Exception:  # noqa: BLE001
                        continue
                    sh.count("ill_typed_instances")
                    if st is spec.peel():
                        inputs.append(("ill-typed-instance", inst))
                    else:
                        # put it where the wire form of a valid value has the member (first position found)
                        try:
                            with quiet():
                                w0 = typelib.marshal(vg.value(spec), t=spec.t)
                        except Exception:  # noqa: BLE001
                            continue
                        planted = plant(w0, inst)
                        if planted is not None:
                            inputs.append(("ill-typed-instance-nested", planted))
            for origin, x in inputs:
                if isinstance(x, (types.GeneratorType,)) or hasattr(x, "__next__"):
                    key = (tsrc, "iter", origin)
                else:
                    try:
                        key = (tsrc, canon(x))
                    except Exception:  # noqa: BLE001
                        key = (tsrc, repr(type(x)))
                sh.eval(key)
                judge(sh, spec, x, tsrc, origin, prog)
            if i % 40 == 0:
                sh.sample({"type": tsrc, "inputs": [short(x, 80) for _, x in inputs[:6]]})
    finally:
        prog.drop()


class _MyBytes(bytes):
    pass


def bytes_like_case(sh, rng):
    """bytes-like targets (outside the grammar U, but 'every supported T'): the result is an instance of exactly the target class at
    every position, for every input - other carriers, text, temporals, numbers, hostile objects."""
    import datetime
    import typing

    T = rng.choice([bytes, bytearray, memoryview, _MyBytes])
    tz = datetime.timezone(datetime.timedelta(hours=5, minutes=30))
    temporals = [datetime.date(2020, 1, 2), datetime.datetime(2020, 1, 2, 3, 4, 5, 6, tzinfo=tz), datetime.time(1, 2, 3, tzinfo=tz), datetime.timedelta(days=1, seconds=2)]
    raw = rng.choice([b"", b"abc", b"\xff\x00", b"[1]"])
    inputs = temporals + [raw, bytearray(raw), memoryview(raw), _MyBytes(raw), raw.decode("latin-1"), 5, 2.5, None, True, [1, 2], {"a": 1}]
    inputs += [x for x in (hostile.pool_item(rng) for _ in range(4)) if not hasattr(x, "__next__")]
    shapes = [("root", T, lambda x: x, lambda r: [r]), ("list", list[T], lambda x: [x, x], lambda r: list(r)),
              ("dict", dict[str, T], lambda x: {"k": x}, lambda r: list(r.values())), ("optional", typing.Optional[T], lambda x: x, lambda r: [r]),
              ("tuple", tuple[T, int], lambda x: (x, 1), lambda r: [r[0]])]
    for x in inputs:
        pos, A, wrap, leaves = rng.choice(shapes)
        sh.count("bytes_like_targets_checked")
        sh.eval(("bytes-like", T.__name__, pos, type(x).__name__))
        try:
            with quiet():
                r = typelib.unmarshal(A, wrap(x))
        except Exception:  # noqa: BLE001
            sh.count("raised")
            continue
        sh.count("returned")
        if pos == "optional" and r is None and x is None:
            continue
        try:
            bad = [e for e in leaves(r) if not isinstance(e, T)]  # isinstance semantics, as at every scalar position
        except Exception:  # noqa: BLE001
            bad = [r]
        if bad:
            sh.violation("nonconforming", type_src=f"{pos}[{T.__name__}]", input=short(x, 120), result=short(r, 160), path=f"<{type(bad[0]).__name__} is not {T.__name__}>",
                         origin="bytes-like", input_class=type(x).__name__)


def run_shard(sh):
    plan = PLAN[sh.tier]
    def case(i):
        run_case(sh, i, plan)
        if i % 10 == 0:
            bytes_like_case(sh, case_rng(sh, i, "bytes-like"))

    sh.run_cases(per_shard(plan["programs"], sh.nshards, sh.shard), case)
