"""C05 - nested members are converted by their own type's rules (member-wise composition, routing, source shapes)."""
from __future__ import annotations

import inspect
import json
import warnings

import typelib

from vlib import hostile
from vlib import universe as U
from vlib.oracles import canon, children, describe, json_plain, same, short
from vlib.workload import case_rng, clear_typelib_caches, per_shard, quiet

ID = "C05"
LEVEL = "exploration"
RULE = ("synthesised module sets with adversarial naming (small shared pool of field names across parent/child/sibling classes, the same "
        "class name defined in two modules and both reachable from one root, a module that re-binds its class names to a second revision with both revisions reachable from one root, diamond sharing, aliases/NewTypes as members); at EVERY "
        "composite node of every root (collection, fixed tuple, mapping, structured class) the routine's result on a member-wise "
        "decomposed input is compared with the composite rebuilt from independently obtained member routines, for unmarshal (wire "
        "forms, with one member corrupted for exception parity) and marshal (valid values); structured sources in their shapes (instance of the target class itself or of a subclass holding unconverted values, mapping, "
        "iterable of pairs, JSON text, instance of a sibling class) must convert alike; 'will default to no-op' warnings for resolvable "
        "hints are violations; one evaluation = one composite node x input; distinct = (node source, canonical input)")
ASSUMPTIONS = [
    "member routines are obtained independently through typelib.unmarshaller(M)/marshaller(M) (their own context and routine objects)",
    "decomposition only uses unambiguous shapes (pairs are 2-tuples; never 2-character strings)",
    "exception parity compares raised-vs-returned; when both raise the composite's exception class must be that of some failing member (or the union's ValueError)",
]
PLAN = {"quick": dict(programs=4500, values=3, depth=3), "thorough": dict(programs=34000, values=6, depth=5)}
FLOORS = {"quick": {"unmarshal_nodes_compared": 70000, "marshal_nodes_compared": 70000, "exception_parity_checked": 100000, "shape_sets_compared": 30000,
                    "same_name_two_modules": 800, "builds_watched_for_warnings": 6000, "own_class_instance_sources": 20000, "reordered_sources": 15000, "revised_module_roots": 250, "generic_pair_roots": 250, "composite_key_roots": 250},
          "thorough": {"unmarshal_nodes_compared": 1200000, "marshal_nodes_compared": 1200000, "exception_parity_checked": 600000,
                       "shape_sets_compared": 150000, "same_name_two_modules": 7000, "builds_watched_for_warnings": 50000, "own_class_instance_sources": 100000, "reordered_sources": 100000, "revised_module_roots": 2000, "generic_pair_roots": 2000, "composite_key_roots": 2000}}
COMPOSITE = ("coll", "fixed", "mapping", "struct")


def outcome(fn, x):
    try:
        with quiet():
            return ("ok", fn(x))
    except (RecursionError, MemoryError):
        return ("skip", None)
    except Exception as e:  # noqa: BLE001
        return ("raised", type(e).__name__)


def member_types(spec):
    """[(key, member spec)] for a composite spec, harness side."""
    k = spec.kind
    if k == "coll":
        return [("*", spec.kids[0])]
    if k == "fixed":
        return list(enumerate(spec.kids))
    if k == "mapping":
        return [("key", spec.kids[0]), ("value", spec.kids[1])]
    return [(f[0], f[1]) for f in spec.info["fields"]]


def live(spec):
    return spec.info["target"]().t if spec.kind == "rec" else spec.t


def rebuild_unmarshal(spec, w, routines):
    """Expected result of unmarshalling wire w for composite `spec` from member routines. Returns outcome tuple."""
    k = spec.kind
    fails = []

    def run(key, x):
        o = outcome(routines[key], x)
        if o[0] != "ok":
            fails.append(o)
        return o[1] if o[0] == "ok" else None

    if k == "coll":
        items = [run("*", e) for e in w]
        res = lambda: spec.info["cls"](items)  # noqa: E731
    elif k == "fixed":
        if len(w) < len(spec.kids):
            return ("raised", "ValueError"), fails
        items = [run(i, e) for i, e in zip(range(len(spec.kids)), w)]
        res = lambda: tuple(items)  # noqa: E731
    elif k == "mapping":
        pairs = [(run("key", kk), run("value", vv)) for kk, vv in w.items()]
        res = lambda: spec.info["cls"](pairs)  # noqa: E731
    else:
        kwargs = {}
        for fname, fspec, _ in spec.info["fields"]:
            if fname in w:
                kwargs[fname] = run(fname, w[fname])
        if spec.info["flavour"].startswith("typeddict"):
            if not set(spec.info["required"]) <= set(kwargs):
                return ("raised", "TypeError"), fails
            res = lambda: dict(kwargs)  # noqa: E731
        else:
            res = lambda: live(spec)(**kwargs)  # noqa: E731
    if any(f[0] == "skip" for f in fails):
        return ("skip", None), fails
    if fails:
        return ("raised", fails[0][1]), fails
    try:
        return ("ok", res()), fails
    except Exception as e:  # noqa: BLE001
        return ("raised", type(e).__name__), fails


def rebuild_marshal(spec, v, routines):
    k = spec.kind
    fails = []

    def run(key, x):
        o = outcome(routines[key], x)
        if o[0] != "ok":
            fails.append(o)
        return o[1] if o[0] == "ok" else None

    if k == "coll":
        out = [run("*", e) for e in v]
    elif k == "fixed":
        out = [run(i, e) for i, e in enumerate(v)]
    elif k == "mapping":
        out = {}
        for kk, vv in v.items():
            a, b = run("key", kk), run("value", vv)
            try:
                out[a] = b
            except TypeError:
                fails.append(("raised", "TypeError"))
    else:
        out = {}
        td = spec.info["flavour"].startswith("typeddict")
        for fname, fspec, _ in spec.info["fields"]:
            if td:
                if fname in v:
                    out[fname] = run(fname, v[fname])
            elif hasattr(v, fname):
                out[fname] = run(fname, getattr(v, fname))
        if spec.info["flavour"] == "namedtuple":
            pass
    if any(f[0] == "skip" for f in fails):
        return ("skip", None), fails
    if fails:
        return ("raised", fails[0][1]), fails
    return ("ok", out), fails


def struct_order_insensitive(a, b):
    return canon(a, strict=True) == canon(b, strict=True)


def nodes_with_values(spec, v, out, seen_depth=0):
    """All (composite spec, value at that position) pairs of a valid value."""
    s = spec
    while s.kind in ("wrap", "rec"):
        s = s.kids[0] if s.kind == "wrap" else s.info["target"]()
    if s.kind in COMPOSITE:
        out.append((s, v))
    if seen_depth > 40 or len(out) > 60:
        return
    for _, c, e in children(spec, v):
        nodes_with_values(c, e, out, seen_depth + 1)


def compare(sh, what, spec, x, want, got, fails, prog, extra=""):
    if want[0] == "skip" or got[0] == "skip":
        return
    ok = want[0] == got[0]
    if ok and want[0] == "ok":
        ok = canon(want[1], strict=True) == canon(got[1], strict=True)
    elif ok:
        ok = got[1] in {f[1] for f in fails} | {want[1], "ValueError"}
    if not ok:
        sh.violation(what, node_src=spec.src, node=describe(spec), input=short(x, 300), expected=short(want, 300), got=short(got, 300),
                     member_failures=short(fails, 120), detail=extra, module_src=prog.source[-3000:])


def check_node(sh, spec, v, prog, rng):
    """One composite node with the valid value v at that position."""
    T = live(spec)
    mts = member_types(spec)
    try:
        with quiet():
            um_c, mm_c = typelib.unmarshaller(T), typelib.marshaller(T)
            um_m = {k: typelib.unmarshaller(live(m)) for k, m in mts}
            mm_m = {k: typelib.marshaller(live(m)) for k, m in mts}
    except Exception as e:  # noqa: BLE001
        sh.violation("routine-build-raised", node_src=spec.src, exc=type(e).__name__, detail=str(e)[:300], module_src=prog.source[-3000:])
        return
    # ---- marshal: composite vs member-wise
    sh.eval((spec.src, "m", canon(v)))
    want, fails = rebuild_marshal(spec, v, mm_m)
    got = outcome(mm_c, v)
    sh.count("marshal_nodes_compared")
    compare(sh, "marshal-not-memberwise", spec, v, want, got, fails, prog)
    if got[0] != "ok" or not json_plain(got[1])[0]:
        return
    w = got[1]
    # ---- unmarshal: composite vs member-wise on the wire form
    sh.eval((spec.src, "u", canon(w)))
    want, fails = rebuild_unmarshal(spec, w, um_m)
    got_u = outcome(um_c, w)
    sh.count("unmarshal_nodes_compared")
    compare(sh, "unmarshal-not-memberwise", spec, w, want, got_u, fails, prog)
    # ---- exception parity: corrupt one member of the wire form
    if isinstance(w, (list, dict)) and w:
        for _ in range(2):
            bad = hostile.pool_item(rng)
            if hasattr(bad, "__next__"):
                continue
            if isinstance(w, list):
                w2 = list(w)
                w2[rng.randrange(len(w2))] = bad
            else:
                w2 = dict(w)
                w2[rng.choice(list(w2))] = bad
            want, fails = rebuild_unmarshal(spec, w2, um_m)
            got2 = outcome(um_c, w2)
            sh.count("exception_parity_checked")
            compare(sh, "unmarshal-not-memberwise", spec, w2, want, got2, fails, prog, extra="one member replaced by a hostile value")
    # ---- structured sources in every documented shape convert alike
    if spec.kind == "struct" and isinstance(w, dict) and got_u[0] == "ok":
        shapes = [("pairs", [(k, x) for k, x in w.items()]), ("pairs-iter", None)]
        try:
            if not c14_bigint(w):
                shapes.append(("json", json.dumps(w)))
                shapes.append(("json-bytes", json.dumps(w).encode()))
        except (TypeError, ValueError):
            pass
        # the same members offered in another order than the class declares them
        if len(w) > 1:
            items = list(w.items())
            other = list(reversed(items)) if rng.random() < 0.5 else rng.sample(items, len(items))
            rw = dict(other)
            shapes.append(("mapping-other-order", rw))
            shapes.append(("pairs-other-order", list(other)))
            try:
                if not c14_bigint(w):
                    shapes.append(("json-other-order", json.dumps(rw)))
            except (TypeError, ValueError):
                pass
            sh.count("reordered_sources")
        ns = {k: x for k, x in w.items() if isinstance(k, str) and k.isidentifier()}
        if len(ns) == len(w):
            import dataclasses
            import typing

            Sib = dataclasses.make_dataclass("Sibling_" + spec.info["name"], [(k, typing.Any) for k in ns] + [("unrelated_extra", typing.Any, None)])
            shapes.append(("sibling-dataclass", Sib(**ns)))

            class SibVars:
                pass

            sv = SibVars()
            sv.__dict__.update(ns)
            shapes.append(("sibling-plain-object", sv))
            # an instance of the target class itself / of a subclass of it, holding the not-yet-converted wire values
            if not str(spec.info.get("flavour")).startswith("typeddict") and inspect.isclass(T):
                try:
                    own = T(**ns)
                    Sub = type("Sub_" + spec.info["name"], (T,), {})
                    sub = Sub(**ns)
                except Exception:  # noqa: BLE001  (constructors that validate / cannot be subclassed)
                    sh.count("own_instance_not_constructible")
                else:
                    shapes.append(("own-class-instance-holding-wire-values", own))
                    shapes.append(("subclass-instance-holding-wire-values", sub))
                    sh.count("own_class_instance_sources")
        if w:  # an empty pair list is indistinguishable from an empty sequence
            sh.count("shape_sets_compared")
            for name, x in shapes:
                if name == "pairs-iter":
                    x = iter([(k, e) for k, e in w.items()])
                o = outcome(um_c, x)
                if o[0] == "skip":
                    continue
                if o[0] != "ok" or canon(o[1], strict=True) != canon(got_u[1], strict=True):
                    sh.violation("source-shape-differs", node_src=spec.src, shape=name, input=short(w, 300), from_mapping=short(got_u, 300),
                                 from_shape=short(o, 300), module_src=prog.source[-3000:])


def c14_bigint(m, depth=0):
    if isinstance(m, bool):
        return False
    if isinstance(m, int):
        return not (-(2**63) <= m < 2**64)
    if isinstance(m, float):
        return m != m or m in (float("inf"), float("-inf"))
    if depth > 100:
        return False
    if isinstance(m, list):
        return any(c14_bigint(e, depth + 1) for e in m)
    if isinstance(m, dict):
        return any(c14_bigint(e, depth + 1) or not isinstance(k, str) for k, e in m.items())
    return False


def two_module_program(rng, opts):
    """Program A imports program B; both define a class with the SAME name but different field types; one root reaches both."""
    progB = U.Program(rng)
    genB = U.Gen(progB, rng, opts)
    shared = "Shared"
    fB = [["x", genB.scalar(rng.choice(["int", "date", "Decimal"])), None], ["val", genB.type(1), None]]
    sB = genB.struct(2, flavour=rng.choice(["dataclass", "namedtuple", "typeddict"]), name=shared, fields=fB)
    progB.build()
    progA = U.Program(rng)
    progA.imports.append(progB)
    genA = U.Gen(progA, rng, opts)
    fA = [["x", genA.scalar(rng.choice(["str", "float", "UUID"])), None], ["val", genA.type(1), None]]
    sA = genA.struct(2, flavour=rng.choice(["dataclass", "namedtuple", "plain"]), name=shared, fields=fA)
    foreign = progA.spec("struct", f"{progB.name}.{shared}", sB.kids, **sB.info)
    foreign.t = sB.t
    container = rng.choice(["list", "dict", "tuple"])
    if container == "list":
        far = progA.spec("coll", f"list[{foreign.src}]", [foreign], ctor="list", cls=list)
    elif container == "dict":
        far = progA.spec("mapping", f"dict[str, {foreign.src}]", [genA.scalar("str"), foreign], ctor="dict", cls=dict)
    else:
        far = progA.spec("fixed", f"tuple[{foreign.src}, {sA.src}]", [foreign, sA], ctor="tuple")
    root = genA.struct(2, flavour="dataclass", fields=[["val", sA, None], ["x", far, None], ["data", foreign, None]])
    progA.build()
    U.reconcile(root)
    return progA, progB, [root, far]


# leaf rules for the revised-module scenario: source text -> [(wire form, value)] - fixed by the harness, no library call involved
REV_LEAVES = {
    "int": [("1", 1), (2.0, 2), ("-7", -7)],
    "str": [(1, "1"), (2.5, "2.5"), ("x", "x")],
    "float": [("1.5", 1.5), (2, 2.0)],
    "decimal.Decimal": [("1.50", __import__("decimal").Decimal("1.50")), (3, __import__("decimal").Decimal(3))],
    "datetime.date": [("2020-01-02", __import__("datetime").date(2020, 1, 2))],
    "uuid.UUID": [("12345678-1234-5678-1234-567812345678", __import__("uuid").UUID("12345678-1234-5678-1234-567812345678"))],
}
REV_WIRE = {"int": lambda v: v, "str": lambda v: v, "float": lambda v: v, "decimal.Decimal": str, "datetime.date": lambda v: v.isoformat(), "uuid.UUID": str}
REV_HEAD = {"dataclass": "@dataclasses.dataclass\nclass {n}:\n", "namedtuple": "class {n}(typing.NamedTuple):\n", "typeddict": "class {n}(typing.TypedDict):\n"}


def ident(x):
    """Class-identity-sensitive rendering (two revisions of a class share their qualified name)."""
    import dataclasses

    if dataclasses.is_dataclass(x) and not isinstance(x, type):
        return ("dc", id(type(x)), tuple((f.name, ident(getattr(x, f.name))) for f in dataclasses.fields(x)))
    if isinstance(x, tuple) and hasattr(type(x), "_fields"):
        return ("nt", id(type(x)), tuple(ident(v) for v in x))
    if isinstance(x, dict):
        return ("dict", tuple(sorted(((ident(k), ident(v)) for k, v in x.items()), key=repr)))
    if isinstance(x, (list, tuple)):
        return (type(x).__name__, tuple(ident(v) for v in x))
    return (type(x).__name__, repr(x))


def revised_module_case(sh, rng):
    """One module defines Item/Holder, something is built for them, then the module RE-BINDS both names to a second revision whose
    member has another type; a root declared afterwards reaches both revisions (the first through the names it was saved under).
    Routines built for the first revision before the re-binding are not used afterwards: only the root declared last is judged."""
    import sys
    import types

    from typelib import graph

    t1, t2 = rng.sample(sorted(REV_LEAVES), 2)
    flav = rng.choice(["dataclass", "dataclass", "namedtuple", "typeddict"])
    name = f"vrev_{rng.randrange(16**8):08x}"
    mod = types.ModuleType(name)
    mod.__file__ = f"/verif/out/generated/{name}.py"
    sys.modules[name] = mod
    head = REV_HEAD[flav]
    rev = ("import dataclasses, datetime, decimal, typing, uuid\n" if True else "")
    src1 = rev + head.format(n="Item") + f"    v: {t1}\n" + head.format(n="Holder") + "    x: Item\n    y: Item\n" + "ItemV1, HolderV1 = Item, Holder\n"
    far = rng.choice(["ItemV1", "list[ItemV1]", "dict[str, ItemV1]", "typing.Optional[ItemV1]", "tuple[ItemV1, Item]"])
    fields = [("old", "HolderV1"), ("new", "Holder"), ("spare", far)]
    rng.shuffle(fields)
    src2 = (head.format(n="Item") + f"    v: {t2}\n" + head.format(n="Holder") + "    x: Item\n    y: Item\n"
            + "@dataclasses.dataclass\nclass Root:\n" + "".join(f"    {f}: {t}\n" for f, t in fields))
    try:
        exec(compile(src1, mod.__file__, "exec", dont_inherit=True), mod.__dict__)
        warm = rng.choice(["codec", "unmarshaller", "marshaller", "static_order", "routines", "none"])
        with quiet():
            if warm == "codec":
                typelib.codec(mod.HolderV1)
            elif warm == "unmarshaller":
                typelib.unmarshaller(mod.HolderV1)
            elif warm == "marshaller":
                typelib.marshaller(mod.HolderV1)
            elif warm == "static_order":
                graph.static_order(mod.HolderV1)
            elif warm == "routines":
                typelib.unmarshaller(mod.HolderV1), typelib.marshaller(mod.HolderV1)
        exec(compile(src2, mod.__file__, "exec", dont_inherit=True), mod.__dict__)
        I1, H1, I2, H2, Root = mod.ItemV1, mod.HolderV1, mod.Item, mod.Holder, mod.Root

        def mk(cls, **kw):
            return dict(kw) if flav == "typeddict" else cls(**kw)

        def item(rev_t, cls):
            w, v = rng.choice(REV_LEAVES[rev_t])
            return {"v": w}, mk(cls, v=v), {"v": REV_WIRE[rev_t](v)}

        def holder(rev_t, icls, hcls):
            (wx, vx, mx), (wy, vy, my) = item(rev_t, icls), item(rev_t, icls)
            return {"x": wx, "y": wy}, mk(hcls, x=vx, y=vy), {"x": mx, "y": my}

        def spare():
            a = item(t1, I1)
            if far == "ItemV1" or far.startswith("typing.Optional"):
                return a
            if far.startswith("list"):
                b = item(t1, I1)
                return [a[0], b[0]], [a[1], b[1]], [a[2], b[2]]
            if far.startswith("dict"):
                return {"k": a[0]}, {"k": a[1]}, {"k": a[2]}
            b = item(t2, I2)
            return [a[0], b[0]], (a[1], b[1]), [a[2], b[2]]

        parts = {"old": holder(t1, I1, H1), "new": holder(t2, I2, H2), "spare": spare()}
        wire = {f: parts[f][0] for f, _ in fields}
        want = Root(**{f: parts[f][1] for f, _ in fields})
        wantm = {f: parts[f][2] for f, _ in fields}
        sh.count("revised_module_roots")
        sh.eval(("revised", flav, t1, t2, far, warm, repr(wire)))
        got = outcome(lambda w: typelib.unmarshal(Root, w), wire)
        if got[0] != "ok" or ident(got[1]) != ident(want):
            sh.violation("revised-name-member-by-other-rules", side="unmarshal", warmed=warm, flavour=flav, wire=repr(wire), expected=repr(want),
                         got=repr(got)[:600], module_src=src1 + "# --- something was built for HolderV1 here, then the module went on: ---\n" + src2)
            return
        gotm = outcome(typelib.marshal, want)
        if gotm[0] != "ok" or ident(gotm[1]) != ident(wantm):
            sh.violation("revised-name-member-by-other-rules", side="marshal", warmed=warm, flavour=flav, value=repr(want), expected=repr(wantm),
                         got=repr(gotm)[:600], module_src=src1 + "# --- something was built for HolderV1 here, then the module went on: ---\n" + src2)
    finally:
        sys.modules.pop(name, None)


def generic_pair_case(sh, rng):
    """A user generic with TWO type-variables whose members use them in both orders: `Pair[K, V]` with `forward: dict[K, V]`,
    `backward: dict[V, K]`, `flipped: tuple[V, K]`, ... Every member of `Pair[A, B]` converts by the argument ITS variable was given."""
    import sys
    import types

    ta, tb = rng.sample(sorted(REV_LEAVES), 2)
    flav = rng.choice(["dataclass", "plain"])
    name = f"vpair_{rng.randrange(16**8):08x}"
    mod = types.ModuleType(name)
    mod.__file__ = f"/verif/out/generated/{name}.py"
    sys.modules[name] = mod
    members = [("first", "K"), ("second", "V"), ("forward", "dict[K, V]"), ("backward", "dict[V, K]"), ("flipped", "tuple[V, K]"), ("nested", "list[dict[V, K]]"),
               ("firsts", "list[K]")]
    rng.shuffle(members)
    members = members[: rng.randrange(3, len(members) + 1)]
    head = "import dataclasses, datetime, decimal, typing, uuid\nK = typing.TypeVar('K')\nV = typing.TypeVar('V')\n"
    if flav == "dataclass":
        src = head + "@dataclasses.dataclass\nclass Pair(typing.Generic[K, V]):\n" + "".join(f"    {n}: {t}\n" for n, t in members)
    else:
        src = (head + "class Pair(typing.Generic[K, V]):\n    def __init__(self, " + ", ".join(f"{n}: {t}" for n, t in members) + "):\n"
               + "".join(f"        self.{n} = {n}\n" for n, _ in members)
               + "    def __eq__(self, o):\n        return type(o) is type(self) and vars(o) == vars(self)\n")
    try:
        exec(compile(src, mod.__file__, "exec", dont_inherit=True), mod.__dict__)
        T = mod.Pair[eval(ta, mod.__dict__), eval(tb, mod.__dict__)]

        def leaf(which):
            w, v = rng.choice(REV_LEAVES[ta if which == "K" else tb])
            return w, v, REV_WIRE[ta if which == "K" else tb](v)

        def hashable_leaf(which):
            for _ in range(8):
                w, v, m = leaf(which)
                try:
                    hash(w), hash(m)
                    return w, v, m
                except TypeError:
                    continue
            return leaf(which)

        def build(tsrc):
            if tsrc in ("K", "V"):
                return leaf(tsrc)
            if tsrc.startswith("list[dict["):
                a = build("dict[V, K]")
                return [a[0]], [a[1]], [a[2]]
            if tsrc.startswith("list["):
                a, b = leaf("K"), leaf("K")
                return [a[0], b[0]], [a[1], b[1]], [a[2], b[2]]
            if tsrc.startswith("dict["):
                kx, vx = (("K", "V") if tsrc == "dict[K, V]" else ("V", "K"))
                k_, v_ = hashable_leaf(kx), leaf(vx)
                return {k_[0]: v_[0]}, {k_[1]: v_[1]}, {k_[2]: v_[2]}
            a, b = leaf("V"), leaf("K")  # tuple[V, K]
            return [a[0], b[0]], (a[1], b[1]), [a[2], b[2]]

        parts = {n: build(t) for n, t in members}
        wire = {n: parts[n][0] for n, _ in members}
        want = mod.Pair(**{n: parts[n][1] for n, _ in members})
        wantm = {n: parts[n][2] for n, _ in members}
        sh.count("generic_pair_roots")
        sh.eval(("generic-pair", flav, ta, tb, tuple(members), repr(wire)))
        rec = dict(flavour=flav, arguments=f"Pair[{ta}, {tb}]", module_src=src)
        got = outcome(lambda w: typelib.unmarshal(T, w), wire)
        fields_of = lambda o: {n: getattr(o, n, "<unset>") for n, _ in members}  # noqa: E731  (typing adds __orig_class__ to instances built through the alias)
        if got[0] != "ok" or type(got[1]) is not mod.Pair or canon(fields_of(got[1]), strict=True) != canon(fields_of(want), strict=True):
            sh.violation("generic-member-by-other-variable", side="unmarshal", wire=repr(wire), expected=repr(fields_of(want)),
                         got=repr(fields_of(got[1]) if got[0] == "ok" else got)[:600], **rec)
            return
        gotm = outcome(lambda v: typelib.marshal(v, t=T), want)
        if gotm[0] != "ok" or canon(gotm[1], strict=True) != canon(wantm, strict=True):
            sh.violation("generic-member-by-other-variable", side="marshal", value=repr(fields_of(want)), expected=repr(wantm), got=repr(gotm)[:600], **rec)
    finally:
        sys.modules.pop(name, None)


def composite_key_case(sh, rng):
    """Mappings whose KEY type is composite (fixed / variadic tuple, frozenset, NamedTuple, frozen dataclass - beyond the key grammar
    of U, where keys are scalars, enums and literals). The source is a Python mapping whose keys already ARE instances of the key
    type's outer class but hold members in wire form: the key is a member like any other and converts by the routine of ITS type,
    member by member. Expected values come from the harness's fixed leaf rules, no library call involved."""
    import collections
    import sys
    import types

    ta, tb = rng.sample(sorted(REV_LEAVES), 2)
    tv = rng.choice(sorted(REV_LEAVES))
    name = f"vkey_{rng.randrange(16**8):08x}"
    mod = types.ModuleType(name)
    mod.__file__ = f"/verif/out/generated/{name}.py"
    sys.modules[name] = mod
    src = ("import collections, dataclasses, datetime, decimal, typing, uuid\n"
           f"class NT(typing.NamedTuple):\n    a: {ta}\n    b: {tb}\n"
           f"@dataclasses.dataclass(frozen=True)\nclass FD:\n    a: {ta}\n    b: {tb}\n")
    kind = rng.choice(["tuple2", "tuplevar", "frozenset", "namedtuple", "frozen-dataclass"])
    ctor = rng.choice(["dict", "typing.Dict", "typing.Mapping", "collections.OrderedDict"])
    position = rng.choice(["root", "field", "list-member", "mapping-value"])
    try:
        exec(compile(src, mod.__file__, "exec", dont_inherit=True), mod.__dict__)

        def leaf(t):
            w, v = rng.choice(REV_LEAVES[t])
            return w, v

        wire, want = {}, {}
        for _ in range(rng.randrange(1, 4)):
            (wa, va), (wb, vb), (wv, vv) = leaf(ta), leaf(tb), leaf(tv)
            if kind == "tuple2":
                ksrc, kw, kv = f"tuple[{ta}, {tb}]", (wa, wb), (va, vb)
            elif kind == "tuplevar":
                wc, vc = leaf(ta)
                ksrc, kw, kv = f"tuple[{ta}, ...]", (wa, wc), (va, vc)
            elif kind == "frozenset":
                ksrc, kw, kv = f"frozenset[{ta}]", frozenset([wa]), frozenset([va])
            elif kind == "namedtuple":
                ksrc, kw, kv = "NT", mod.NT(wa, wb), mod.NT(va, vb)
            else:
                ksrc, kw, kv = "FD", mod.FD(wa, wb), mod.FD(va, vb)
            wire[kw], want[kv] = wv, vv
        if len(want) != len(wire):
            sh.count("composite_key_collisions_skipped")
            return
        msrc = f"{ctor}[{ksrc}, {tv}]"
        ns = mod.__dict__
        if ctor == "collections.OrderedDict":
            want = collections.OrderedDict(want)
        if position == "root":
            T, w, e = eval(msrc, ns), wire, want
        elif position == "list-member":
            T, w, e = eval(f"list[{msrc}]", ns), [wire], [want]
        elif position == "mapping-value":
            T, w, e = eval(f"dict[str, {msrc}]", ns), {"k": wire}, {"k": want}
        else:
            hsrc = f"@dataclasses.dataclass\nclass Holder:\n    cells: {msrc}\n"
            src += hsrc
            exec(compile(hsrc, mod.__file__, "exec", dont_inherit=True), ns)
            T, w, e = mod.Holder, {"cells": wire}, mod.Holder(cells=want)
        sh.count("composite_key_roots")
        sh.count("composite_key_" + kind)
        sh.eval(("composite-key", kind, ctor, position, ta, tb, tv, repr(wire)))
        got = outcome(lambda x: typelib.unmarshal(T, x), w)
        if got[0] != "ok" or canon(got[1], strict=True) != canon(e, strict=True):
            sh.violation("mapping-key-not-memberwise", key_kind=kind, mapping=msrc, position=position, input=repr(w)[:400], expected=repr(e)[:400],
                         got=repr(got)[:600], module_src=src)
    finally:
        sys.modules.pop(name, None)


def canaries(sh):
    class Fake:
        def __init__(self):
            self.n = 0

        def violation(self, *a, **k):
            self.n += 1

    f = Fake()
    s = U.Spec("coll", "list[int]", [], ctor="list", cls=list)
    compare(f, "x", s, None, ("ok", [1, 2]), ("ok", ["1", 2]), [], type("P", (), {"source": ""})())
    compare(f, "x", s, None, ("raised", "ValueError"), ("ok", [1]), [("raised", "ValueError")], type("P", (), {"source": ""})())
    sh.canary("member-unconverted-detected", f.n == 2)
    f = Fake()
    compare(f, "x", s, None, ("ok", [1, 2]), ("ok", [1, 2]), [], type("P", (), {"source": ""})())
    sh.canary("agreement-accepted", f.n == 0)


def run_case(sh, i, plan):
    rng = case_rng(sh, i)
    clear_typelib_caches(also_typing=True)
    if i % 12 == 5:
        revised_module_case(sh, rng)
        return
    if i % 12 == 7:
        generic_pair_case(sh, rng)
        return
    if i % 12 == 9:
        composite_key_case(sh, rng)
        return
    opts = U.Opts(depth=rng.choice([2, 2, 3, plan["depth"]]), share_prob=0.4, none_members=True)
    extra = None
    caught = []
    with warnings.catch_warnings(record=True) as wlog:
        warnings.simplefilter("always")
        if rng.random() < 0.3:
            prog, extra, roots = two_module_program(rng, opts)
            sh.count("same_name_two_modules")
        else:
            prog = U.Program(rng)
            gen = U.Gen(prog, rng, opts)
            roots = [gen.struct(opts.depth) if rng.random() < 0.6 else gen.type(opts.depth) for _ in range(2)]
            prog.build()
            for r in roots:
                U.reconcile(r)
        try:
            vg = U.ValueGen(rng)
            for spec in roots:
                sh.count("builds_watched_for_warnings")
                try:
                    typelib.unmarshaller(spec.t)
                    typelib.marshaller(spec.t)
                except Exception as e:  # noqa: BLE001
                    sh.violation("routine-build-raised", node_src=spec.src, exc=type(e).__name__, detail=str(e)[:300], module_src=prog.source[-3000:])
                    continue
                for _ in range(plan["values"]):
                    v = vg.value(spec)
                    pairs = []
                    nodes_with_values(spec, v, pairs)
                    for node, sub in pairs[:25]:
                        check_node(sh, node, sub, prog, rng)
                if i % 60 == 0:
                    sh.sample({"root": spec.src, "composite_nodes": len(pairs)})
        finally:
            caught = [str(w.message) for w in wlog if "Will default to no-op" in str(w.message)]
            prog.drop()
            if extra is not None:
                extra.drop()
    for msg in caught[:3]:
        sh.violation("noop-fallback-warning", detail=msg[:400], module_src=prog.source[-3000:])


def run_shard(sh):
    plan = PLAN[sh.tier]
    sh.run_cases(per_shard(plan["programs"], sh.nshards, sh.shard), lambda i: run_case(sh, i, plan))
