"""C19 - classes.slotted(C) behaves like dataclass C (behavioural differential + layout + decoration histories)."""
from __future__ import annotations

import copy
import dataclasses
import pickle
import sys
import types
import warnings
import weakref

from typelib.py import classes

from vlib.oracles import short
from vlib.workload import case_rng, per_shard

ID = "C19"
LEVEL = "exploration"
RULE = ("synthesised dataclass families (0-5 fields, defaults and default_factory, frozen/eq/order/unsafe_hash flags, ClassVars, methods, "
        "single inheritance from slotted and unslotted bases, fields excluded from __init__, methods and __post_init__ chains using zero-argument super(), user __getstate__/__setstate__ (both, or only the restoring half); decorated in place, by a later call after the class was already used, or twice) emitted twice - plain and decorated with "
        "@classes.slotted(dict=?, weakref=?) in all four flag combinations - in decoration histories of 1-4 classes incl. repeated "
        "class names and an earlier failing decoration; the same operation script (construct, ==, ordering, hash, repr, copy, deepcopy, "
        "pickle, frozen-ness, defaults, isinstance, qualname/module) runs against both and the traces are compared; layout is checked "
        "against the statement and native dataclass(slots=True); classes._stack must be empty at every quiescent point; one evaluation = "
        "one class compared; distinct = class source")
ASSUMPTIONS = [
    "the 'use native slots on Python >= 3.10' warning is ignored; comparison with native slots only concerns the slot tuple",
]
PLAN = {"quick": dict(histories=6000), "thorough": dict(histories=60000)}
FLOORS = {"quick": {"classes_with_one_user_of_the_class_cell": 400, "classes_with_dict_state": 1500, "classes_compared": 10000, "operations_compared": 300000, "pickle_roundtrips": 20000, "inheritance_cases": 1000, "stack_checks": 10000,
                    "repeated_name_histories": 500, "failing_decoration_histories": 500},
          "thorough": {"classes_compared": 100000, "operations_compared": 2000000, "pickle_roundtrips": 150000, "inheritance_cases": 10000,
                       "stack_checks": 90000, "repeated_name_histories": 5000, "failing_decoration_histories": 3000}}
_N = [0]


def gen_class(rng, name, base=None, base_fields=(), slotted_args=None, extras=False, mode="decorator"):
    """Source of one dataclass (optionally decorated with slotted). Returns (source, field list [(name, default_src)])."""
    nf = rng.randrange(0, 6 if base is None else 3)
    frozen = rng.random() < 0.3
    order = rng.random() < 0.3
    eq = True if order else rng.random() < 0.85
    unsafe_hash = rng.random() < 0.2
    flags = []
    if frozen:
        flags.append("frozen=True")
    if order:
        flags.append("order=True")
    if not eq:
        flags.append("eq=False")
    if unsafe_hash:
        flags.append("unsafe_hash=True")
    fields = []
    have_default = any(d is not None for _, d in base_fields)
    if base_fields and rng.random() < 0.3:
        # re-declare an inherited field (with a new default) in the child
        fname, _ = rng.choice(list(base_fields))
        fields.append((fname, rng.choice(["5", "'redeclared'", "None"])))
    for i in range(nf):
        fname = f"{name.lower()}_f{i}"
        d = None
        if have_default or rng.random() < 0.3:
            have_default = True
            d = rng.choice(["0", "'d'", "dataclasses.field(default_factory=list)", "None", "(1, 2)",
                            # excluded from __init__: a plain default then lives on the class only (nothing assigns it), a factory is
                            #   still called by __init__
                            "dataclasses.field(init=False, default=7)", "dataclasses.field(init=False, default_factory=list)"])
        fields.append((fname, d))
    lines = []
    if slotted_args is not None and mode in ("decorator", "double"):
        lines.append(f"@classes.slotted({slotted_args})")
        if mode == "double":
            lines.append(f"@classes.slotted({slotted_args})")  # the result of slotted() is a dataclass as well
    lines.append(f"@dataclasses.dataclass({', '.join(flags)})")
    lines.append(f"class {name}{'(' + base + ')' if base else ''}:")
    body = []
    if rng.random() < 0.3:
        body.append("    KIND: typing.ClassVar[str] = 'k'")
    for fname, d in fields:
        body.append(f"    {fname}: typing.Any" + (f" = {d}" if d is not None else ""))
    if rng.random() < 0.4:
        body.append("    def total(self):\n        return len(dataclasses.fields(self))")
    if rng.random() < 0.35:
        # zero-argument super(): the method closes over the class it was defined in
        body.append(f"    def lineage(self):\n        return ({name!r},) + getattr(super(), 'lineage', tuple)()")
    if rng.random() < 0.3:
        # a property whose accessors use zero-argument super() - all of them, or only one (all functions of a class body share ONE
        #   __class__ cell, so a single user is the sharpest case)
        use = rng.choice(["get", "set", "del", "all", "set", "del"])
        sup = "super().__repr__()[:0]"
        body.append("    @property\n    def tag(self):\n        return 'tag' + " + (sup if use in ("get", "all") else "''") + "\n"
                    "    @tag.setter\n    def tag(self, v):\n        POST_INITS.append('set:' + " + (sup if use in ("set", "all") else "''") + " + repr(v))\n"
                    "    @tag.deleter\n    def tag(self):\n        POST_INITS.append('del:' + " + (sup if use in ("del", "all") else "''") + ")")
    if rng.random() < 0.25:
        body.append(f"    @classmethod\n    def family(cls):\n        return getattr(super(), 'family', tuple)() + ({name!r},)")
    hooks = rng.random()
    if hooks < 0.12:
        body.append("    def __getstate__(self):\n        return {f.name: getattr(self, f.name) for f in dataclasses.fields(self)}")
        body.append("    def __setstate__(self, state):\n        for k, v in state.items():\n            object.__setattr__(self, k, v)")
    elif hooks < 0.22:
        # only the restoring half, written for either state shape (instance dict / (instance dict, slots)); it leaves a trace
        body.append("    def __setstate__(self, state):\n        RESTORED.append(type(self).__name__)\n"
                    "        for part in (state if isinstance(state, tuple) else (state,)):\n"
                    "            for k, v in (part or {}).items():\n                object.__setattr__(self, k, v)")
    use_extras = rng.random() < 0.5 and extras
    chain_post_init = rng.random() < 0.25
    if use_extras or chain_post_init:
        post = ["    def __post_init__(self):"]
        if chain_post_init:
            post.append("        getattr(super(), '__post_init__', lambda: None)()")
            post.append("        POST_INITS.append(type(self).__name__)")
        if use_extras:
            # non-field state kept in the instance __dict__ (the usual idiom on frozen classes); only emitted when the slotted twin has one
            post.append("        object.__setattr__(self, 'xtra_key', ('derived', len(dataclasses.fields(self))))")
            post.append("        object.__setattr__(self, 'xtra_list', [1, 2])")
        body.append("\n".join(post))
    if not body:
        body.append("    pass")
    lines.extend(body)
    if slotted_args is not None and mode == "late":
        # the class is used before it is decorated (copying an instance makes copyreg cache `__slotnames__` on the class), then
        #   decorated by a call
        lines.append(f"_early = {name}(**{{f.name: 0 for f in dataclasses.fields({name}) if f.init and f.default is dataclasses.MISSING "
                     f"and f.default_factory is dataclasses.MISSING}})")
        lines.append("copy.copy(_early)")
        lines.append(f"{name} = classes.slotted({slotted_args})({name})")
    return "\n".join(lines) + "\n", fields, dict(frozen=frozen, order=order, eq=eq, unsafe_hash=unsafe_hash)


def _appended(log, fn):
    n = len(log)
    fn()
    return list(log[n:])


def script(mod, cname, allfields, flags, rng_vals, nested=False):
    """Run the operation script against class `cname` of module `mod`; returns a list of (op, result-repr)."""
    C = getattr(mod.Outer if nested else mod, cname)
    tr = []

    def rec(op, fn):
        try:
            r = fn()
            tr.append((op, "ok", r))
        except Exception as e:  # noqa: BLE001
            tr.append((op, "raised", type(e).__name__))

    required = [f for f, d in allfields if d is None]
    vals = list(rng_vals)
    kw1 = {f: vals[i % len(vals)] for i, f in enumerate(required)}
    kw2 = {f: vals[(i + 1) % len(vals)] for i, f in enumerate(required)}
    a = b = c = None
    try:
        a, b, c = C(**kw1), C(**kw1), C(**kw2)
    except Exception as e:  # noqa: BLE001
        tr.append(("construct", "raised", type(e).__name__))
        return tr
    strip = lambda s: s.replace(mod.__name__ + ".", "")  # noqa: E731
    rec("repr", lambda: strip(repr(a)))
    rec("eq-same", lambda: a == b)
    rec("eq-other", lambda: a == c)
    rec("ne", lambda: a != c)
    rec("lt", lambda: a < c)
    rec("le", lambda: a <= b)
    rec("hash-eq", lambda: hash(a) == hash(b))
    rec("hashable", lambda: isinstance(hash(a), int))
    rec("in-set", lambda: len({a, b}))
    rec("asdict", lambda: repr(dataclasses.asdict(a)))
    rec("astuple", lambda: repr(dataclasses.astuple(a)))
    rec("fields", lambda: [f.name for f in dataclasses.fields(C)])
    rec("replace", lambda: strip(repr(dataclasses.replace(a))))
    rec("copy", lambda: (copy.copy(a) == a, type(copy.copy(a)) is C))
    rec("deepcopy", lambda: (copy.deepcopy(a) == a, strip(repr(copy.deepcopy(a)))))
    rec("pickle", lambda: (strip(repr(pickle.loads(pickle.dumps(a)))), type(pickle.loads(pickle.dumps(a))) is C))
    rec("pickle-eq", lambda: pickle.loads(pickle.dumps(a, protocol=2)) == a)
    xt = lambda o: (getattr(o, "xtra_key", "<none>"), getattr(o, "xtra_list", "<none>"))  # noqa: E731  state living in the instance __dict__
    rec("dict-state", lambda: xt(a))
    rec("dict-state-copy", lambda: xt(copy.copy(a)))
    rec("dict-state-deepcopy", lambda: xt(copy.deepcopy(a)))
    rec("dict-state-pickle", lambda: [xt(pickle.loads(pickle.dumps(a, protocol=pr))) for pr in (2, pickle.HIGHEST_PROTOCOL)])
    rec("dict-state-replace", lambda: xt(dataclasses.replace(a)))
    assigned = [f for f, d in allfields if not (d and "init=False, default=" in d)]  # (a default read from the class is not an instance attribute)
    if assigned:
        f0 = assigned[0]
        rec("setattr", lambda: (setattr(b, f0, "changed"), getattr(b, f0))[1])
        rec("delattr", lambda: delattr(c, f0))
    rec("defaults", lambda: [repr(getattr(a, f)) for f, d in allfields if d is not None])
    rec("default-factory-fresh", lambda: all(getattr(a, f) is not getattr(C(**kw1), f) for f, d in allfields if d and "default_factory" in d))
    rec("classvar", lambda: getattr(C, "KIND", "<none>"))
    rec("method", lambda: a.total() if hasattr(a, "total") else "<none>")
    rec("super-method", lambda: a.lineage() if hasattr(a, "lineage") else "<none>")
    rec("post-init-chain", lambda: _appended(mod.POST_INITS, lambda: C(**kw1)))
    if hasattr(C, "tag"):
        rec("property-get", lambda: a.tag)
        rec("property-set", lambda: _appended(mod.POST_INITS, lambda: setattr(a, "tag", 5)))
        rec("property-del", lambda: _appended(mod.POST_INITS, lambda: delattr(a, "tag")))
    rec("classmethod-super", lambda: C.family() if hasattr(C, "family") else "<none>")
    if any(not (d and "init=False, default=" in d) for _, d in allfields):
        # (an instance without any assigned attribute has no state: nothing is restored)
        rec("user-setstate-calls", lambda: (mod.RESTORED.clear(), copy.copy(a), copy.deepcopy(a), pickle.loads(pickle.dumps(a)), list(mod.RESTORED))[-1])
    rec("field-values", lambda: [repr(getattr(a, f, "<unset>")) for f, _ in allfields])
    rec("isinstance-bases", lambda: [isinstance(a, base) for base in C.__mro__[1:-1]])
    rec("mro-names", lambda: [k.__name__ for k in C.__mro__])
    rec("qualname", lambda: C.__qualname__)
    rec("name", lambda: C.__name__)
    rec("module-is-own", lambda: C.__module__ == mod.__name__)
    rec("doc", lambda: (C.__doc__ or "").replace(mod.__name__ + ".", ""))
    rec("params", lambda: (C.__dataclass_params__.frozen, C.__dataclass_params__.eq, C.__dataclass_params__.order))
    rec("is_dataclass", lambda: dataclasses.is_dataclass(C) and dataclasses.is_dataclass(a))
    rec("positional-construct", lambda: strip(repr(C(*[kw1[f] for f in required]))))
    rec("too-many-args", lambda: C(*([1] * (len(allfields) + 1))))
    rec("unknown-kw", lambda: C(**kw1, zzz=1))
    return tr


def check_layout(sh, S, own_fields, inherited_names, want_dict, want_weakref, base_is_unslotted, label, src):
    slots = tuple(S.__dict__.get("__slots__", ()))
    expect = [f for f in own_fields if f not in inherited_names]
    extra = [s for s in slots if s not in expect]
    if [s for s in slots if s in expect] != expect:
        sh.violation("slots-not-field-names", cls=label, slots=str(slots), expected=str(expect), source=src)
    for special, wanted in (("__dict__", want_dict), ("__weakref__", want_weakref)):
        inherited = base_is_unslotted or special in inherited_names
        if (special in slots) != (wanted and not inherited):
            sh.violation("special-slot", cls=label, slots=str(slots), special=special, requested=wanted, inherited=inherited, source=src)
    if [e for e in extra if e not in ("__dict__", "__weakref__")]:
        sh.violation("unexpected-slot", cls=label, slots=str(slots), source=src)


def canaries(sh):
    sh.canary("trace-diff-detected", [("eq", "ok", True)] != [("eq", "ok", False)])
    sh.canary("stack-visible", isinstance(classes._stack, set))


def run_case(sh, i, plan):
    rng = case_rng(sh, i)
    _N[0] += 1
    tag = f"{sh.shard}_{_N[0]}"
    nclasses = rng.choice([1, 2, 2, 3, 4])
    scenario = rng.choice(["plain", "repeat-name", "failing-first", "inherit", "inherit", "inherit"])
    specs = []  # (name, base name or None, slotted_args (dict,weakref), base_slotted?)
    header = "import copy, dataclasses, typing\nfrom typelib.py import classes\nRESTORED = []\nPOST_INITS = []\n"
    plain_src, slot_src = header, header
    meta = []
    for k in range(nclasses):
        name = f"K{k}"
        if scenario == "repeat-name" and k > 0 and rng.random() < 0.6:
            name = "K0"
        d, w = rng.choice([(False, False), (False, True), (True, False), (True, True)])
        base = None
        base_fields = ()
        base_kind = None
        if scenario == "inherit" and meta and rng.random() < 0.8:
            bm = rng.choice(meta)
            if not bm["flags"]["frozen"]:
                base, base_fields, base_kind = bm["name"], bm["allfields"], bm
        base_unslotted = False
        if base_kind is not None and rng.random() < 0.5:
            base_unslotted = True  # the slotted module inherits from an UNSLOTTED base of the same shape
        mode = rng.choice(["decorator"] * 8 + ["late", "double"])
        if base_kind is not None and any(dflt and "init=False, default=" in dflt for _, dflt in base_kind["allfields"]):
            # a default read from the class does not reach an UNSLOTTED subclass of a slotted class (its own __init__ never assigns the
            #   field, and the slot has displaced the class attribute) - the same holds for native dataclass(slots=True): such
            #   lineages are slotted throughout
            base_unslotted = False
            mode = "decorator"
        sh.count("decorations_" + mode)
        # keep RNG streams identical for both emissions
        state = rng.getstate()
        src_p, fields, flags = gen_class(rng, name, base, base_fields, None, extras=d)
        rng.setstate(state)
        src_s, _, _ = gen_class(rng, name, (base + "_plain" if base_unslotted else base) if base else None, base_fields, f"dict={d}, weakref={w}", extras=d, mode=mode)
        if "super()" in src_p:
            sh.count("classes_with_zero_arg_super")
        if "@tag.setter" in src_p:
            sh.count("classes_with_super_in_property")
            if src_p.count("super()") == 1:
                sh.count("classes_with_one_user_of_the_class_cell")
        if "init=False" in src_p:
            sh.count("classes_with_init_false_fields")
        if "RESTORED" in src_p:
            sh.count("classes_with_setstate_only")
        if "__post_init__" in src_p:
            sh.count("classes_with_dict_state")
        if flags["frozen"] and base_kind is not None:
            pass
        plain_src += src_p + "\n"
        if base_unslotted:
            # define an unslotted twin of the base in the slotted module
            slot_src += base_kind["plain_src"].replace(f"class {base}", f"class {base}_plain", 1) + "\n"
        slot_src += src_s + "\n"
        merged = [(f, dict(fields).get(f, d)) for f, d in base_fields] + [(f, d) for f, d in fields if f not in dict(base_fields)]
        meta.append(dict(name=name, fields=fields, allfields=merged, flags=flags, d=d, w=w, base=base, base_unslotted=base_unslotted,
                         plain_src=src_p, base_meta=base_kind))
    if scenario == "failing-first":
        # an earlier decoration that fails (custom metaclass is rejected by design / bad input), must not poison later ones
        slot_src = header + ("class Meta(type):\n    def __new__(m, n, b, ns, **k):\n        if '__slots__' in ns:\n            raise RuntimeError('boom')\n"
                             "        return super().__new__(m, n, b, ns)\n"
                             "try:\n    @classes.slotted\n    @dataclasses.dataclass\n    class K0(metaclass=Meta):\n        x: int = 0\nexcept RuntimeError:\n    pass\n") + slot_src[len(header):]
        sh.count("failing_decoration_histories")
    if scenario == "repeat-name":
        sh.count("repeated_name_histories")
    nested = scenario != "failing-first" and rng.random() < 0.25
    if nested:
        sh.count("nested_families")

        def nest(src):
            body = src[len(header):]
            return header + "class Outer:\n" + "\n".join(("    " + l if l.strip() else l) for l in body.splitlines()) + "\n"

        plain_src, slot_src = nest(plain_src), nest(slot_src)
    mods = {}
    for kind, src in (("plain", plain_src), ("slotted", slot_src)):
        m = types.ModuleType(f"vslot_{kind}_{tag}")
        sys.modules[m.__name__] = m
        mods[kind] = m
        try:
            with warnings.catch_warnings():
                warnings.simplefilter("ignore")
                exec(compile(src, f"/verif/out/generated/{m.__name__}.py", "exec", dont_inherit=True), m.__dict__)
        except Exception as e:  # noqa: BLE001
            if kind == "plain":
                for mm in mods.values():
                    sys.modules.pop(mm.__name__, None)
                sh.count("plain_source_invalid")
                return
            sh.violation("decoration-raised", scenario=scenario, exc=type(e).__name__, detail=str(e)[:300], source=slot_src[-1800:])
            sh.count("stack_checks")
            if classes._stack:
                sh.violation("stack-not-empty", scenario=scenario, detail=str(classes._stack)[:200], source=slot_src[-1500:])
                classes._stack.clear()
            for mm in mods.values():
                sys.modules.pop(mm.__name__, None)
            return
        sh.count("stack_checks")
        if classes._stack:
            sh.violation("stack-not-empty", scenario=scenario, detail=str(classes._stack)[:200], source=src[-1500:])
            classes._stack.clear()
    try:
        vals = [rng.choice([1, "a", (1, 2), None, 2.5]) for _ in range(4)]
        final = {}
        for mt in meta:
            final[mt["name"]] = mt  # the last definition of a repeated name is the module attribute
        for name, mt in final.items():
            sh.eval(mt["plain_src"] + str((mt["d"], mt["w"], mt["base_unslotted"])))
            sh.count("classes_compared")
            if mt["base"]:
                sh.count("inheritance_cases")
            t_plain = script(mods["plain"], name, mt["allfields"], mt["flags"], vals, nested)
            t_slot = script(mods["slotted"], name, mt["allfields"], mt["flags"], vals, nested)
            sh.count("operations_compared", len(t_plain))
            sh.count("pickle_roundtrips", 2)
            lineage_unslotted = False
            lineage_dict = False
            bm, first = mt, True
            while bm is not None:
                if bm["base_unslotted"]:
                    lineage_unslotted = True
                if not first and bm["d"]:
                    lineage_dict = True
                first = False
                bm = bm["base_meta"]
            for (op, *p), (op2, *s) in zip(t_plain, t_slot):
                if op == "mro-names" and lineage_unslotted:
                    continue
                if p != s:
                    sh.violation("behaviour-differs", cls=name, op=op, plain=short(p, 200), slotted=short(s, 200), flags=str(mt["flags"]),
                                 slotted_args=f"dict={mt['d']}, weakref={mt['w']}", base=str(mt["base"]), base_unslotted=mt["base_unslotted"],
                                 source=slot_src[-1800:])
                    break
            S = getattr(mods["slotted"].Outer if nested else mods["slotted"], name)
            inherited = set()
            for b in S.__mro__[1:]:
                inherited.update(getattr(b, "__slots__", ()))
            check_layout(sh, S, [f for f, _ in mt["allfields"]], inherited, mt["d"], mt["w"], lineage_unslotted, name, slot_src[-1500:])
            # instance dict / weakref-ability
            try:
                req = {f: 1 for f, dflt in mt["allfields"] if dflt is None}
                inst = S(**req)
                has_dict = hasattr(inst, "__dict__")
                allowed = mt["d"] or lineage_unslotted or lineage_dict
                if has_dict != allowed:
                    sh.violation("instance-dict", cls=name, has_dict=has_dict, allowed=allowed, slotted_args=f"dict={mt['d']}", source=slot_src[-1500:])
                if mt["w"]:
                    weakref.ref(inst)
            except Exception as e:  # noqa: BLE001
                sh.violation("instance-probe-raised", cls=name, exc=type(e).__name__, detail=str(e)[:200], source=slot_src[-1500:])
            # native slots comparison (field slots only)
            if not mt["base"] and not mt["d"] and not mt["w"]:
                try:
                    native = dataclasses.dataclass(slots=True, **{k: v for k, v in mt["flags"].items()})(
                        type(name, (), {"__annotations__": {f: object for f, _ in mt["fields"]}, **{f: 0 for f, dflt in mt["fields"] if dflt is not None}}))
                    if tuple(native.__slots__) != tuple(s for s in S.__slots__):
                        sh.violation("differs-from-native-slots", cls=name, native=str(native.__slots__), slotted=str(S.__slots__))
                except Exception:  # noqa: BLE001
                    pass
        if i % 100 == 0:
            sh.sample({"scenario": scenario, "source": slot_src[len(header):][:600]})
    finally:
        for mm in mods.values():
            sys.modules.pop(mm.__name__, None)


def run_shard(sh):
    plan = PLAN[sh.tier]
    sh.run_cases(per_shard(plan["histories"], sh.nshards, sh.shard), lambda i: run_case(sh, i, plan))
