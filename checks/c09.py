"""C09 - graph.static_order is a duplicate-free, complete dependency order with every cycle cut."""
from __future__ import annotations

import dataclasses
import inspect
import sys
import typing

import typelib
from typelib import graph
from typelib.py import refs

from vlib import graphspec
from vlib import topo
from vlib import universe as U
from vlib.oracles import short
from vlib.workload import case_rng, clear_typelib_caches, make_program, per_shard, quiet

ID = "C09"
LEVEL = "exploration"
RULE = ("annotations from grammar U (every sub-annotation of every generated program used as a root) plus class-graph "
        "topologies: all digraphs over <=3 synthesised classes (edge kinds direct/Optional/list/dict/tuple[...]/X|None sampled), "
        "sampled digraphs over 4, nested classes (Outer.Ci), each class and each container of a class as root; one "
        "evaluation = one static_order/itertypes result checked against all clauses; plus the clause checker applied to every graph the repository's own test-suite builds; distinct = distinct (module-independent) "
        "node-sequence shape; non-trivial = more than one node")
ASSUMPTIONS = [
    "member lists are computed by the harness from typing.get_args / typing.get_type_hints; Any, TypeVars, Ellipsis and empty are exempt; Literal arguments are values",
    "extra nodes are allowed",
    "a step budget (sys.monitoring PY_START events) decides termination; wall-clock is only a watchdog",
]
PLAN = {"quick": dict(programs=500, topologies=1400, depth=3), "thorough": dict(programs=12000, topologies=40000, depth=5)}
FLOORS = {"quick": {"suite_graphs_judged": 80, "suite_tests_passed": 1400, "sequences_checked": 15000, "deferred_nodes_seen": 3000, "equivalences_checked": 3000, "topology_roots": 8000, "same_name_two_module_topologies": 200, "bare_and_parameterised_roots": 2000, "two_labels_one_type_roots": 1500, "user_generic_roots": 900, "equal_union_twins_roots": 600, "bare_nested_name_roots": 900},
          "thorough": {"suite_graphs_judged": 80, "suite_tests_passed": 1400, "sequences_checked": 400000, "deferred_nodes_seen": 80000, "equivalences_checked": 80000, "topology_roots": 200000, "bare_and_parameterised_roots": 40000, "two_labels_one_type_roots": 25000, "user_generic_roots": 20000, "equal_union_twins_roots": 12000, "bare_nested_name_roots": 20000}}
STEP_BUDGET = 2_000_000


class Steps:
    """Counts PY_START events of typelib code during one call (logical-step termination budget)."""

    TOOL = 3

    def __init__(self):
        self.n = 0
        self.on = False

    def start(self):
        mon = sys.monitoring
        try:
            mon.use_tool_id(self.TOOL, "verif-steps")
        except ValueError:
            pass
        mon.register_callback(self.TOOL, mon.events.PY_START, self._cb)
        mon.set_events(self.TOOL, mon.events.PY_START)

    def _cb(self, code, off):
        if "typelib" in code.co_filename:
            self.n += 1
            if self.n > STEP_BUDGET and self.on:
                raise StepBudgetExceeded()
        else:
            return sys.monitoring.DISABLE

    def stop(self):
        sys.monitoring.set_events(self.TOOL, 0)


class StepBudgetExceeded(BaseException):
    pass


def shape(nodes):
    def nm(t):
        s = str(t)
        import re

        return re.sub(r"v(gen|topo)_\d+_\w+?\.", "", s)

    return tuple((nm(n.type), n.var, n.cyclic) for n in nodes)


def check_root(sh, label, T, steps, module_src=""):
    steps.n = 0
    steps.on = True
    try:
        with quiet():
            nodes = graph.static_order(T)
            it_nodes = list(graph.itertypes(T))
    except StepBudgetExceeded:
        sh.violation("step-budget", root=label, detail=f"> {STEP_BUDGET} typelib function calls")
        return None
    except RecursionError:
        sh.violation("recursion", root=label)
        return None
    except Exception as e:  # noqa: BLE001
        sh.violation("raised", root=label, exc=type(e).__name__, detail=str(e)[:300], module_src=module_src[-2500:])
        return None
    steps.on = False
    sh.count("sequences_checked")
    sh.see("max_steps", min(steps.n // 1000, 9999))
    sh.eval(shape(nodes) if len(nodes) > 1 else None)
    sh.count("deferred_nodes_seen", sum(1 for n in nodes if n.cyclic))
    root = T
    if isinstance(T, (str, typing.ForwardRef)):
        return nodes
    for clause, detail in graphspec.check_sequence(root, nodes, refs.evaluate):
        sh.violation(clause, root=label, detail=detail[:500], nodes=short([repr(n) for n in nodes], 900), module_src=module_src[-2500:])
    if list(nodes) != it_nodes:
        sh.violation("itertypes-differs", root=label, detail=short(it_nodes, 300))
    return nodes


def recurs(nodes, root):
    """Does the root type occur again inside its own graph (as a deferred node)?"""
    for n in nodes[:-1]:
        try:
            d = graphspec.denotes(n, refs.evaluate) if n.cyclic else n.type
        except Exception:  # noqa: BLE001
            return True
        if graphspec.teq(d, root) or graphspec.teq(graphspec.peel(d), graphspec.peel(root)):
            return True
    return False


def equivalence(sh, prog_or_topo, label, src, T, nodes, steps):
    """String / ForwardRef / NewType / alias spellings give the same sequence up to the root label."""
    if nodes is None:
        return
    if recurs(nodes, T):
        sh.count("equivalences_of_recursive_roots")
    if typing.get_origin(T) in (typing.Final, typing.ClassVar):
        return  # a qualifier is not a type: it cannot be aliased / NewType'd / referenced
    mod = prog_or_topo.module
    name = f"_eq_{sh.case}_{abs(hash(src)) % 10**8}"
    setattr(mod, name, T)
    variants = {
        "str": f"{mod.__name__}.{name}",
        "forwardref": typing.ForwardRef(name, module=mod.__name__),
        "newtype": typing.NewType(name + "N", T),
        "alias": typing.TypeAliasType(name + "A", T),
    }
    base = [(n.type, n.var, n.cyclic) for n in nodes[:-1]]
    for kind, V in variants.items():
        try:
            with quiet():
                got = graph.static_order(V)
        except Exception as e:  # noqa: BLE001
            sh.violation("spelling-raised", root=label, spelling=kind, exc=type(e).__name__, detail=str(e)[:300])
            continue
        sh.count("equivalences_checked")
        g = [(n.type, n.var, n.cyclic) for n in got[:-1]]
        if g != base:
            sh.violation("spelling-differs", root=label, spelling=kind, detail=f"expected {short(base, 400)} got {short(g, 400)}")
        elif not got or (kind in ("str", "forwardref") and not graphspec.teq(got[-1].type, T)):
            sh.violation("spelling-differs", root=label, spelling=kind, detail=f"root node {got[-1] if got else None!r}")


def canaries(sh):
    from typelib.graph import TypeNode

    ev = refs.evaluate
    bad = [TypeNode(int), TypeNode(typing.ForwardRef("list", module="builtins"), var="x", cyclic=True), TypeNode(list[int])]
    sh.canary("paramless-forwardref", bool(graphspec.check_sequence(list[int], [TypeNode(typing.ForwardRef("list", module="builtins"), cyclic=True), TypeNode(list[list[int]])], ev)))
    sh.canary("member-after-parent", any(c == "member-not-before" for c, _ in graphspec.check_sequence(list[int], [TypeNode(list[int])], ev)))
    sh.canary("unflagged-forwardref", any(c == "forwardref-not-flagged" for c, _ in graphspec.check_sequence(int, [TypeNode(typing.ForwardRef("int", module="builtins")), TypeNode(int)], ev)))
    sh.canary("duplicate", any(c == "duplicate" for c, _ in graphspec.check_sequence(int, [TypeNode(int), TypeNode(int)], ev)))
    sh.canary("last-not-root", any(c == "last-not-root" for c, _ in graphspec.check_sequence(list[int], [TypeNode(list[int]), TypeNode(int)], ev)))
    sh.canary("good-sequence-accepted", not graphspec.check_sequence(dict[str, int], [TypeNode(str), TypeNode(int), TypeNode(dict[str, int])], ev))


def topologies(rng, count, shard, nshards):
    """Deterministic enumeration (all digraphs over <=3 classes) then sampled 4-class ones; sharded round-robin."""
    idx = 0
    for n in (1, 2, 3):
        for es in topo.all_edge_sets(n):
            idx += 1
            if idx % nshards == shard:
                yield n, es
    while True:
        idx += 1
        n = 4
        pairs = [(i, j) for i in range(n) for j in range(n)]
        es = [p for p in pairs if rng.random() < 0.3]
        if idx % nshards == shard:
            yield n, es


def run_shard(sh):
    plan = PLAN[sh.tier]
    steps = Steps()
    steps.start()
    nprog = per_shard(plan["programs"], sh.nshards, sh.shard)
    ntopo = per_shard(plan["topologies"], sh.nshards, sh.shard)
    import random

    tgen = topologies(random.Random(f"C09/{sh.seed}/topo"), plan["topologies"], sh.shard, sh.nshards)
    topos = [next(tgen) for _ in range(ntopo)]

    def case(i):
        rng = case_rng(sh, i)
        clear_typelib_caches(also_typing=True)
        if i < nprog:
            opts = U.Opts(depth=rng.choice([1, 2, 3, plan["depth"]]))
            prog, gen, roots = make_program(rng, opts, nroots=2)
            try:
                seen = set()
                for r in roots:
                    for s in r.walk():
                        if s.kind == "rec" or isinstance(s.t, str) and s.kind != "wrap" or id(s) in seen:
                            continue
                        seen.add(id(s))
                        nodes = check_root(sh, s.src, s.t, steps, prog.source)
                        if rng.random() < 0.3 and not isinstance(s.t, str):
                            equivalence(sh, prog, s.src, s.src, s.t, nodes, steps)
                # the unparameterised generic next to a parameterised form of the same origin (either order; as tuple members,
                # union members and dataclass fields), and two different parameterisations of one origin
                gens = [s for r in roots for s in r.walk() if s.kind in ("coll", "mapping") and not isinstance(s.t, str) and typing.get_origin(s.t) is not None]
                for s in rng.sample(gens, min(2, len(gens))):
                    bare = s.info["ctor"].replace("...", "")
                    other_param = f"{bare}[int, ...]" if s.info["ctor"].endswith("...") else (f"{bare}[str, int]" if s.kind == "mapping" else f"{bare}[int]")
                    forms = [f"tuple[{bare}, {s.src}]", f"tuple[{s.src}, {bare}]", f"typing.Union[{bare}, {s.src}]", f"dict[str, {bare}] | {s.src}",
                             f"tuple[{other_param}, {s.src}]", f"tuple[{s.src}, {other_param}, {bare}]"]
                    for src in rng.sample(forms, 3):
                        sh.count("bare_and_parameterised_roots")
                        check_root(sh, src, prog.ev(src), steps, prog.source)
                    order = [("raw", prog.ev(bare)), ("items", s.t)]
                    if rng.random() < 0.5:
                        order.reverse()
                    Mixed = dataclasses.make_dataclass(f"Mixed_{i}", order + [("n", int)], module=prog.name)
                    setattr(prog.module, Mixed.__name__, Mixed)
                    sh.count("bare_and_parameterised_roots")
                    check_root(sh, f"dataclass Mixed({', '.join(k for k, _ in order)}) over {bare} and {s.src}", Mixed, steps, prog.source)
                # two different labels (NewTypes / aliases) of one composite type in the same graph
                comps = [s for r in roots for s in r.walk() if s.kind in ("coll", "mapping", "struct", "fixed") and not isinstance(s.t, str)]
                for s in rng.sample(comps, min(2, len(comps))):
                    def label(tag):
                        # created by code running in the program's own module, as user code would
                        ctor = rng.choice(["NewType", "TypeAliasType"])
                        name = f"L{tag}_{i}_{abs(hash(s.src)) % 10**6}"
                        prog.run(f"{name} = typing.{ctor}({name!r}, {s.src})")
                        return getattr(prog.module, name)
                    la, lb = label("a"), label("b")
                    two = [("tuple[La, Lb]", tuple[la, lb]), ("dict[str, La] | Lb", typing.Union[dict[str, la], lb]), ("tuple[La, T, Lb]", tuple[la, s.t, lb]),
                           ("dataclass(primary: La, backup: Lb)", dataclasses.make_dataclass(f"TwoLabels_{i}_{abs(hash(s.src)) % 10**6}", [("primary", la), ("backup", lb)], module=prog.name))]
                    for src, T in rng.sample(two, 2):
                        if inspect.isclass(T):
                            setattr(prog.module, T.__name__, T)
                        sh.count("two_labels_one_type_roots")
                        check_root(sh, f"{src} with La, Lb = two {type(la).__name__}/{type(lb).__name__} labels of {s.src}", T, steps, prog.source)
                # the same union reached twice under two spellings that compare equal (member order, Optional vs `| None`): one node
                scal = [s for r in roots for s in r.walk() if s.kind in ("scalar", "enum", "struct") and not isinstance(s.t, str)]
                if len(scal) >= 1:
                    a_ = rng.choice(scal).src
                    b_ = rng.choice([x.src for x in scal if x.src != a_] or ["int" if a_ != "int" else "str"])
                    for src in rng.sample([f"tuple[{a_} | None, None | {a_}]", f"dict[typing.Union[{a_}, {b_}], typing.Union[{b_}, {a_}]]",
                                           f"tuple[typing.Optional[{a_}], {a_} | None, list[None | {a_}]]", f"tuple[{a_} | {b_}, list[{b_} | {a_}]]"], 2):
                        try:
                            T2 = prog.ev(src)
                        except Exception:  # noqa: BLE001  (e.g. `X | None` with X a string reference)
                            continue
                        sh.count("equal_union_twins_roots")
                        check_root(sh, src, T2, steps, prog.source)
                # a class whose fields name a class nested in its own body by its bare name (resolved through the class namespace)
                if scal_srcs := [s_.src for r_ in roots for s_ in r_.walk() if s_.kind == "scalar"][:3]:
                    leaf_src = rng.choice(scal_srcs)
                    prog.run(f"@dataclasses.dataclass\nclass NH_{i}:\n    @dataclasses.dataclass\n    class Inner:\n        value: {leaf_src}\n"
                             f"    label: str\n    inner: Inner\n    many: list[Inner]\n"
                             f"class NP_{i}:\n    class Item:\n        weight: {leaf_src}\n    first: Item\n    rest: dict[str, Item]\n")
                    for src in (f"NH_{i}", f"list[NH_{i}]", f"NP_{i}"):
                        sh.count("bare_nested_name_roots")
                        check_root(sh, src, prog.ev(src), steps, prog.source)
                # parameterised user generics: fields declared in __init__ only, and as a dataclass
                if comps or gens:
                    prog.run(f"_T{i} = typing.TypeVar('_T{i}')\n_U{i} = typing.TypeVar('_U{i}')\n"
                         f"class GP_{i}(typing.Generic[_T{i}, _U{i}]):\n"
                         f"    def __init__(self, first: _T{i}, rest: typing.List[_U{i}], tag: typing.Dict[str, bytes]):\n"
                         f"        self.first, self.rest, self.tag = first, rest, tag\n"
                         f"@dataclasses.dataclass\nclass GD_{i}(typing.Generic[_T{i}]):\n    item: _T{i}\n    items: typing.List[_T{i}]\n"
                         # a type parameter that no field uses (a typed reference): the argument is a member all the same
                         f"@dataclasses.dataclass\nclass GR_{i}(typing.Generic[_T{i}, _U{i}]):\n    id: int\n    tag: _U{i}\n"
                         # members that spell the class's type parameters in ANOTHER order than the class declares them
                         f"@dataclasses.dataclass\nclass GX_{i}(typing.Generic[_T{i}, _U{i}]):\n    inverse: typing.Dict[_U{i}, _T{i}]\n"
                         f"    swapped: typing.Tuple[_U{i}, _T{i}]\n    first: _T{i}\n")
                    s0 = rng.choice(comps or gens)
                    for src in rng.sample([f"GP_{i}[int, {s0.src}]", f"list[GP_{i}[{s0.src}, str]]", f"GD_{i}[{s0.src}]", f"dict[str, GD_{i}[{s0.src}]]",
                                           f"tuple[GD_{i}[int], GD_{i}[{s0.src}]]", f"GR_{i}[{s0.src}, int]", f"dict[str, GR_{i}[{s0.src}, str]]",
                                           f"GX_{i}[{s0.src}, str]", f"list[GX_{i}[{s0.src}, int]]", f"GX_{i}[bytes, int]"], 5):
                        sh.count("user_generic_roots")
                        check_root(sh, src, prog.ev(src), steps, prog.source)
                if i % 50 == 0:
                    sh.sample({"root": roots[0].src, "nodes": [repr(n) for n in graph.static_order(roots[0].t)][:6]})
            finally:
                prog.drop()
        else:
            n, es = topos[i - nprog]
            edges = [(a, b, rng.choice(topo.EDGE_KINDS)) for a, b in es]
            other = None
            foreign = []
            if rng.random() < 0.25:
                # same-named classes in a second module, reachable from this one (and possibly re-visited there as well)
                oes = [(a, b, rng.choice(topo.EDGE_KINDS)) for a in range(n) for b in range(n) if rng.random() < 0.4]
                other = topo.Topology(n, oes, nested=False, flavour="dataclass", tag=f"{sh.shard}_{i}_b", style=rng.choice(["postponed", "quoted"]))
                other.build()
                foreign = [(a, b, rng.choice(topo.EDGE_KINDS)) for a in range(n) for b in range(n) if rng.random() < 0.5] or [(0, 0, "direct")]
                sh.count("same_name_two_module_topologies")
            tp = topo.Topology(n, edges, nested=rng.random() < 0.3 and other is None, flavour=rng.choice(["dataclass", "dataclass", "namedtuple", "typeddict"]),
                               tag=f"{sh.shard}_{i}", other=other, foreign_edges=foreign, style=rng.choice(["postponed", "quoted"]),
                               wrapped_edges=({e: rng.choice(["newtype", "alias"]) for e in rng.sample(edges, min(len(edges), 2))} if edges and rng.random() < 0.2 else None))
            tp.build()
            try:
                for label, T in tp.roots():
                    sh.count("topology_roots")
                    nodes = check_root(sh, f"{label} in {n}-class graph {edges}", T, steps, tp.source)
                    if rng.random() < 0.15:
                        equivalence(sh, tp, label, label, T, nodes, steps)
                if i % 200 == 0:
                    sh.sample({"topology": edges, "nested": tp.nested})
            finally:
                tp.drop()
                if other is not None:
                    other.drop()

    sh.run_cases(nprog + ntopo, case)
    steps.stop()

    # second workload: the repository's own test-suite, watched by the spec-free monitors of vlib/suitemon.py (last, so that its
    # cache state cannot shape the cases above); one shard runs it
    if sh.shard == sh.nshards - 1:
        from vlib import suitemon

        suitemon.run_repo_suite(sh, ['graph'])
    else:
        for k in ['suite_graphs_judged', 'suite_tests_passed']:
            sh.count(k, 0)
