"""C14 - text-like inputs are interchangeable; JSON / literal text == decoded value; serdes.load contract."""
from __future__ import annotations

import ast
import json

import typelib
from typelib import serdes

from vlib import universe as U
from vlib.oracles import canon, json_plain, same, short
from vlib.workload import case_rng, clear_typelib_caches, make_program, per_shard, quiet

ID = "C14"
LEVEL = "exploration"
RULE = ("bytes-free types from grammar U x strings (wire forms of valid values rendered by json.dumps and repr, their scalar members' "
        "texts, numeric/boolean/null look-alikes, malformed JSON, control characters, non-ASCII, whitespace padding, long text) in "
        "the five carriers str/bytes/bytearray/memoryview(bytes)/memoryview(bytearray); one evaluation = one (type, string) whose "
        "five outcomes were compared, plus text-vs-decoded-value comparisons for container/structured types and a post-condition "
        "on every serdes.load/strload call classified by stdlib json + ast.literal_eval; distinct = (type source, string)")
ASSUMPTIONS = [
    "non-UTF-8 bytes are outside the statement; 'all reject' compares raised-vs-returned, not exception classes",
    "for JSON text load() may answer like stdlib json or like the configured backend (they differ on NaN/Infinity and ints beyond 64 bits); text that is a Python literal but not JSON is unspecified and skipped",
    "json.dumps(m) == m is only demanded for str-keyed types (JSON stringifies other keys); repr(m) == m only when repr(m) is a literal",
]
PLAN = {"quick": dict(programs=4000, values=3, depth=3), "thorough": dict(programs=40000, values=6, depth=4)}
FLOORS = {"quick": {"carrier_sets_compared": 100000, "text_vs_value": 25000, "load_contract_checked": 500000, "load_nontext_identity": 30000, "loaded_results_mutated": 50000},
          "thorough": {"carrier_sets_compared": 2000000, "text_vs_value": 300000, "load_contract_checked": 5000000, "load_nontext_identity": 300000, "loaded_results_mutated": 500000}}

LOOKALIKES = ["", " ", "1", " 1 ", "1.0", "-0", "1e5", "1E400", "null", "None", "true", "True", "false", "nan", "NaN", "Infinity", "-Infinity",
              "[1]", "[1, 2]", "[1,2", '{"a":1}', '{"a":', "{'a': 1}", "(1, 2)", "1,2", "{1, 2}", "[]", "{}", "()", '"q"', "'q'", '"\\u00e9"',
              "é", "日本語", "\x00", "\x1f", "a\nb", "\t[1]\n", "0x10", "1_000", "0123", "1/2", "2020-01-01", "12:30:00", "PT1S",
              "00000000-0000-0000-0000-000000000001", "[1, [2, [3]]]", '{"a": {"b": [1, 2.5, null, true]}}', "x" * 5000, "[" + "1," * 500 + "1]",
              '{"a":1,"a":2}', "1 2", "[1] [2]", "tru", "nul", "+1", ".5", "5.", "1e", "--1", '["a", "b"]', "b'x'", "...", "a b", "[[1, 2], [3, 4]]",
              '{"f0": 1, "f1": "x", "x": 2.5}', '"a\\/b"', '"\\ud83d\\ude00"', '["\\/", "\\b\\f"]', '{"k\\/": "\\u0041"}', "100000000000000000000000000000", "[100000000000000000000000000000]", "-9223372036854775809",
              # temporal texts that only some parsers read (whatever the answer is, it is the same in every carrier)
              "1900-01-01T12:30:00+05:53:28", "2020-01-01T10:00:00 +01:00", "2020-01-01T10:00:00.+01:00", "20200101T100000Z", "2020-W01-1", "2020-001",
              "12:30:00+05:53:28", "12:30", "24:00:00", "2020-01-01T24:00:00", "2020-01-01 10:00:00", "2020-01-01T10:00:00,5", "-P1DT2H", "P1W", "PT0.5S",
              "0001-01-01", "9999-12-31T23:59:59.999999+00:00", "1577836800", "1577836800.5", "-1", "2020-13-01", "2020-02-30"]


ODD_CHARS = ["\ufeff", "\u00a0", "\u200b", "\u2028", "\u2003", "\x85", "\x1c", "\x0b", "\x0c", "\ufffe", "\u202e"]


def carriers(text):
    b = text.encode("utf8")
    return [("str", text), ("bytes", b), ("bytearray", bytearray(b)), ("memoryview", memoryview(b)), ("memoryview-rw", memoryview(bytearray(b)))]


def outcome(T, x):
    try:
        with quiet():
            return ("ok", typelib.unmarshal(T, x))
    except RecursionError:
        return ("skip", None)
    except Exception as e:  # noqa: BLE001
        return ("raised", type(e).__name__)


def _reject(c):
    raise ValueError(c)


def classify_text(s):
    try:
        return "json", json.loads(s, parse_constant=_reject)
    except (ValueError, RecursionError):
        pass
    try:
        return "literal", ast.literal_eval(s)
    except (ValueError, TypeError, SyntaxError, MemoryError, RecursionError):
        return "text", s


def check_load(sh, s):
    """Post-condition of serdes.load / strload on the text s in all carriers."""
    kind, expect = classify_text(s)
    for cname, x in carriers(s):
        for fn in (serdes.load, serdes.strload):
            sh.count("load_contract_checked")
            try:
                got = fn(x)
            except RecursionError:
                continue
            except Exception as e:  # noqa: BLE001
                sh.violation("load-raised", fn=fn.__name__, carrier=cname, text=short(s, 200), text_class=kind, exc=type(e).__name__, detail=str(e)[:200])
                continue
            if kind == "json":
                ok = canon(got, strict=True) == canon(expect, strict=True)
                if not ok:
                    try:
                        ok = canon(got, strict=True) == canon(typelib.compat.json.loads(s), strict=True)
                    except Exception:  # noqa: BLE001
                        ok = False
                if not ok:
                    sh.violation("load-json-differs", fn=fn.__name__, carrier=cname, text=short(s, 200), expected=short(expect, 200), got=short(got, 200),
                                 big_int_in_wire=has_big_int(expect))
            elif kind == "text":
                if not (type(got) is str and got == s):
                    sh.violation("load-text-not-unchanged", fn=fn.__name__, carrier=cname, text=short(s, 200), got=short(got, 200))
            # what the caller then does with its result must not show in the next load of the same text (the loader is memoised)
            if isinstance(got, (list, dict, set)):
                sh.count("loaded_results_mutated")
                scribble(got)


def scribble(o, depth=0):
    if depth > 6:
        return
    if isinstance(o, list):
        for e in o:
            scribble(e, depth + 1)
        o.append("<<scribbled>>")
    elif isinstance(o, dict):
        for e in list(o.values()):
            scribble(e, depth + 1)
        o["<<scribbled>>"] = 1
    elif isinstance(o, set):
        o.add("<<scribbled>>")
    elif isinstance(o, tuple):
        for e in o:
            scribble(e, depth + 1)


def check_nontext(sh, rng):
    for x in (1, 2.5, None, True, [1, "2"], {"a": "1"}, (1,), {1}, object(), rng):
        sh.count("load_nontext_identity")
        try:
            got = serdes.load(x)
        except Exception as e:  # noqa: BLE001
            sh.violation("load-nontext-raised", value=short(x), exc=type(e).__name__)
            continue
        if got is not x:
            sh.violation("load-nontext-not-identical", value=short(x), got=short(got))


def canaries(sh):
    sh.canary("classify-json", classify_text(" [1, 2] ")[0] == "json")
    sh.canary("classify-literal", classify_text("(1, 2)")[0] == "literal")
    sh.canary("classify-text", classify_text("tru")[0] == "text" and classify_text("NaN")[0] == "text")
    sh.canary("int-float-differ", canon(10**30, strict=True) != canon(1e30, strict=True))


def compare_carriers(sh, spec, s, prog):
    T, tsrc = spec.t, spec.src
    sh.eval((tsrc, s))
    outs = [(c, outcome(T, x)) for c, x in carriers(s)]
    if any(o[0] == "skip" for _, o in outs):
        return
    sh.count("carrier_sets_compared")
    ref = outs[0][1]
    for cname, o in outs[1:]:
        if o[0] != ref[0] or (o[0] == "ok" and not same(o[1], ref[1], strict=True)):
            sh.violation("carriers-differ", type_src=tsrc, text=short(s, 200), str_outcome=short(ref, 200), carrier=cname, carrier_outcome=short(o, 200),
                         module_src=prog.source[-2000:])
            return


def has_big_int(m, depth=0):
    if isinstance(m, bool):
        return False
    if isinstance(m, int):
        return not (-(2**63) <= m < 2**64)
    if depth > 200:
        return False
    if isinstance(m, list):
        return any(has_big_int(e, depth + 1) for e in m)
    if isinstance(m, dict):
        return any(has_big_int(k, depth + 1) or has_big_int(e, depth + 1) for k, e in m.items())
    return False


def run_case(sh, i, plan):
    rng = case_rng(sh, i)
    clear_typelib_caches(also_typing=True)
    opts = U.Opts(depth=rng.choice([1, 2, 2, 3, plan["depth"]]))
    prog, gen, roots = make_program(rng, opts, nroots=3)
    vg = U.ValueGen(rng)
    try:
        for spec in roots:
            T, tsrc = spec.t, spec.src
            facts = U.facts(spec)
            strings = [rng.choice(LOOKALIKES) for _ in range(4)]
            # the same texts behind / in front of characters a decoder might drop or a stripper might remove (BOM, NBSP, zero-width and
            # separator characters): they are part of the text in every carrier alike
            odd = rng.choice(ODD_CHARS)
            strings.append(odd + rng.choice(LOOKALIKES))
            strings.append(rng.choice(LOOKALIKES) + odd)
            for _ in range(plan["values"]):
                v = vg.value(spec)
                try:
                    with quiet():
                        m = typelib.marshal(v, t=T)
                except Exception:  # noqa: BLE001
                    continue
                if not json_plain(m)[0]:
                    continue
                base = outcome(T, m)
                texts = []
                try:
                    jt = json.dumps(m, allow_nan=False)  # a wire holding inf/nan (lenient union member) has no JSON text
                    strings.append(jt)
                    if facts["str_keyed"] and spec.peel().kind in ("coll", "fixed", "mapping", "struct"):
                        texts.append(("json.dumps", jt))
                except (TypeError, ValueError):
                    pass
                rt = repr(m)
                if classify_text(rt)[0] in ("json", "literal") and "inf" not in rt and "nan" not in rt:
                    strings.append(rt)
                    if spec.peel().kind in ("coll", "fixed", "mapping", "struct"):
                        texts.append(("repr", rt))
                if isinstance(m, str):
                    strings.append(m)
                elif isinstance(m, list):
                    strings.extend(e for e in m[:3] if isinstance(e, str))
                for how, text in texts:
                    sh.count("text_vs_value")
                    o = outcome(T, text)
                    if base[0] == "skip" or o[0] == "skip":
                        continue
                    if o[0] != base[0] or (o[0] == "ok" and not same(o[1], base[1], strict=True)):
                        sh.violation("text-differs-from-value", type_src=tsrc, rendering=how, text=short(text, 300), value_outcome=short(base, 200),
                                     text_outcome=short(o, 200), big_int_in_wire=has_big_int(m), module_src=prog.source[-2000:])
            for s in strings:
                compare_carriers(sh, spec, s, prog)
                if rng.random() < 0.5:
                    check_load(sh, s)
            if i % 60 == 0:
                sh.sample({"type": tsrc, "strings": [short(s, 60) for s in strings[:5]]})
        check_nontext(sh, rng)
        for s in rng.sample(LOOKALIKES, 6) + [rng.choice(ODD_CHARS) + rng.choice(LOOKALIKES), rng.choice(LOOKALIKES) + rng.choice(ODD_CHARS)]:
            check_load(sh, s)
    finally:
        prog.drop()


def run_shard(sh):
    plan = PLAN[sh.tier]
    sh.run_cases(per_shard(plan["programs"], sh.nshards, sh.shard), lambda i: run_case(sh, i, plan))
